#!/usr/bin/env python3
"""Store a confirmed seeded change: keep_seeded.py <worktree> <name> <property> <caught_by> <needs...>"""
import json, os, shutil, subprocess, sys
wt, name, prop, caught = sys.argv[1:5]
needs = " ".join(sys.argv[5:])
dst = f"/verif/seeded/{name}"
os.makedirs(dst, exist_ok=True)
shutil.copy(f"{wt}/patch.diff", f"{dst}/patch.diff")
shutil.copy(f"{wt}/tests/seeded_demo.rs", f"{dst}/seeded_demo.rs")
if os.path.exists(f"{wt}/NOTES.md"):
    shutil.copy(f"{wt}/NOTES.md", f"{dst}/NOTES.md")
log = open(f"{wt}/verify.log").read() if os.path.exists(f"{wt}/verify.log") else ""
base = subprocess.check_output(["git", "-C", wt, "rev-parse", "--short", "HEAD"]).decode().strip()
meta = {
    "property": prop,
    "base_commit": base,
    "needs_to_manifest": needs,
    "confirmed": {
        "where": "scratch worktree of /repo under /tmp (removed afterwards)",
        "suite_with_change": [l.strip() for l in log.splitlines() if "Summary" in l],
        "demo_with_change": "fails" if "demo with change rc=101" in log else "?",
        "demo_without_change": "passes" if "demo without change rc=0" in log else "?",
        "commands": ["cargo nextest run --workspace --no-fail-fast --offline --test-threads 4 --build-jobs 4",
                     "cargo test --offline --test seeded_demo (with and without the src change)"],
    },
    "checks_run": "tools/try_patch_isolated.sh patch.diff <check> (scratch worktree + scratch copy of /verif; /repo untouched): quick tier, VERIF_SEED 20260926 and 1",
    "caught_by": caught,
}
json.dump(meta, open(f"{dst}/meta.json", "w"), indent=1)
print("kept", dst)
