#!/bin/bash
# Apply a seeded change to /repo, run the given checks (quick tier, seeds 20260926 and 1), undo it.
# usage: tools/try_patch.sh <patch.diff> <P1> [P2 ...]
set -u
patch="$1"; shift
cd /verif
if ! git -C /repo diff --quiet; then echo "refusing: /repo has uncommitted changes"; exit 2; fi
git -C /repo apply "$patch" || { echo "patch does not apply"; exit 2; }
trap 'git -C /repo checkout -- . ; git -C /verif checkout -- evidence ; rm -rf /verif/replays ; echo "[repo restored; mutant-run evidence and replays discarded]"' EXIT
for p in "$@"; do
  for seed in 20260926 1; do
    out=$(VERIF_SEED=$seed ./check run "$p" --tier quick 2>&1)
    rc=$?
    echo "== $p seed=$seed rc=$rc"
    echo "$out" | grep -E "^violation:|^VIOLATION|HARNESS|quick:" | cut -c1-260 | head -12
  done
done
