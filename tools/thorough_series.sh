#!/bin/bash
# usage: tools/thorough_series.sh <P1> [P2 ...]   (run from /verif; prints one summary block per check)
for p in "$@"; do
  ./check run "$p" --tier thorough 2>&1 | grep -E "^violation|^VIOLATION|KNOWN-FINDING|thorough:|HARNESS" | cut -c1-300
done
