#!/usr/bin/env python3
"""Regenerate commit hashes in MANIFEST.hooks.source_commits and known_findings.json 'fixed' entries
from /repo's log (hashes change when fix commits are amended/rebased)."""
import json, re, subprocess
log = subprocess.check_output(["git", "-C", "/repo", "log", "--format=%H %s", "eff4639..HEAD"]).decode().strip().splitlines()
m = json.load(open("/verif/MANIFEST.json"))
m["hooks"]["source_commits"] = [l.split()[0] for l in log if "verif hooks" in l][::-1]
json.dump(m, open("/verif/MANIFEST.json", "w"), indent=1)
PAT = {
    "flip_k1_insert with a stale/missing CellKey": "flip_k1_insert with a missing cell key",
    "returned Err after the vertex was already removed": "remove_vertex rolls back",
    "with a partially flipped mesh": "restores the pre-repair",
    "remove_vertex returned Ok leaving": "never commits a structurally",
    "returned Ok leaving a cell stored with negative": "repair_delaunay_with_flips(_advanced) return cells",
    "DedupPolicy::Epsilon(tolerance<1e-10)": "never finer than the duplicate tolerance",
    "missing from the spatial index": "flip_k1_insert/flip_k1_remove drop",
    "holding keys of the replaced Tds": "builds the initial simplex",
    "generation restarted": "generation counter monotonic",
    "could not be read back with serde_json::from_reader": "non-borrowing deserializers",
    "stored vertices with NaN": "never stores non-finite",
    "without an incident cell": "records an incident cell",
    "a constructor returned Ok with a cell": "batch construction returns cells",
    "stored the vertex unwrapped": "wraps the vertex into the fundamental domain",
    "toroidal metadata dropped by the heuristic rebuild": "heuristic rebuild keeps the global topology",
    "wrapping returned the period itself": "never returns the period itself",
    "validation_report() came back empty": "validation_report includes the completion-time",
}
def h(pat):
    for l in log:
        if pat in l:
            return l.split()[0][:7]
    raise SystemExit(f"no commit for {pat}")
kf = json.load(open("/verif/known_findings.json"))
out = []
for e in kf["fixed"]:
    for key, pat in PAT.items():
        if key in e:
            e = re.sub(r"(fixed: property=C\d+ )[0-9a-f]{7,40}", lambda mm: mm.group(1) + h(pat), e)
            break
    else:
        raise SystemExit("unmatched fixed entry: " + e[:80])
    out.append(e)
kf["fixed"] = out
json.dump(kf, open("/verif/known_findings.json", "w"), indent=1)
print("\n".join(x[:110] for x in out))
