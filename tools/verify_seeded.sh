#!/bin/bash
# Confirm a seeded change in its scratch worktree: suite passes with it (except the demo),
# demo fails with it and passes without it. usage: verify_seeded.sh /tmp/mut-<id>
wt="$1"; cd "$wt" || exit 2
export CARGO_NET_OFFLINE=true
log="$wt/verify.log"; : > "$log"
git diff -- src/ > "$wt/patch.check.diff"
echo "patch lines: $(wc -l < "$wt/patch.check.diff")" >> "$log"
cargo nextest run --workspace --no-fail-fast --offline --test-threads 4 --build-jobs 4 > "$wt/suite_with.log" 2>&1
grep -E "Summary|FAIL" "$wt/suite_with.log" | sort -u | head -20 >> "$log"
cargo test --offline --test seeded_demo > "$wt/demo_with.log" 2>&1; echo "demo with change rc=$?" >> "$log"
# (git stash is shared by all worktrees of a repository: toggle the change with apply -R instead)
git apply -R "$wt/patch.check.diff"
cargo test --offline --test seeded_demo > "$wt/demo_without.log" 2>&1; echo "demo without change rc=$?" >> "$log"
git apply "$wt/patch.check.diff"
echo DONE >> "$log"
