#!/usr/bin/env python3
"""Give every entry of known_findings.json a reproducing replay under findings/:
run each property's quick tier with the known-finding file ignored, pick (preferably minimised)
replays whose violation matches the entry, copy them to findings/<id>.json and record the path.
Development-time tool; the checks never write known_findings.json."""
import glob, json, os, re, shutil, subprocess, sys
ROOT = "/verif"
kf = json.load(open(f"{ROOT}/known_findings.json"))
props = sorted({f["property"] for f in kf["findings"]})
only = sys.argv[1:]
for prop in props:
    if only and prop not in only:
        continue
    shutil.rmtree(f"{ROOT}/replays", ignore_errors=True)
    env = dict(os.environ, VERIF_IGNORE_KNOWN="1")
    subprocess.run(["./check", "run", prop, "--tier", "quick"], cwd=ROOT, env=env, stdout=subprocess.DEVNULL, stderr=subprocess.DEVNULL)
    files = sorted(glob.glob(f"{ROOT}/replays/{prop}-*.json"), key=lambda p: (p.endswith(".raw.json"), os.path.getsize(p)))
    for f in kf["findings"]:
        if f["property"] != prop:
            continue
        for path in files:
            r = json.load(open(path))
            e = r.get("expect") or {}
            if "clause" in f and f["clause"] != e.get("clause"):
                continue
            rx = f["match"].get("signature_regex")
            if rx and not re.search(rx, e.get("signature", "")):
                continue
            dst = f"findings/{f['id']}.json"
            shutil.copy(path, f"{ROOT}/{dst}")
            f["replay"] = dst
            print(f["id"], "<-", os.path.basename(path), e.get("signature"))
            break
        else:
            print(f["id"], "no matching replay in this run")
    subprocess.run(["git", "checkout", "--", "evidence"], cwd=ROOT)
shutil.rmtree(f"{ROOT}/replays", ignore_errors=True)
json.dump(kf, open(f"{ROOT}/known_findings.json", "w"), indent=1)
