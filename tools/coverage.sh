#!/bin/bash
# Reach measurement: which lines of /repo/src do the checks execute?  Builds the simulator with
# -C instrument-coverage on the nightly toolchain (llvm-tools) in a scratch target directory,
# runs a slice of every check's quick tier (simdebug profile) and prints per-file line coverage
# plus the list of library functions never entered.  Not a check; a tool for deciding where the
# workload or the fault mix has to change.   usage: tools/coverage.sh [fraction-of-quick, default 10 = 1/10]
set -u
frac="${1:-10}"
work=/root/scratch/cov; mkdir -p "$work/raw"; rm -f "$work"/raw/*.profraw
bin="$work/target/simdebug/delsim"
tools="$HOME/.rustup/toolchains/nightly-x86_64-unknown-linux-gnu/lib/rustlib/x86_64-unknown-linux-gnu/bin"
( cd /verif/sim && CARGO_NET_OFFLINE=true RUSTFLAGS="--cfg delaunay_verif -C instrument-coverage" CARGO_TARGET_DIR="$work/target" \
    cargo +nightly build --offline --profile simdebug -j 8 >"$work/build.log" 2>&1 ) || { tail "$work/build.log"; exit 2; }
python3 - "$frac" <<'PY' > "$work/jobs.txt"
import re,sys
frac=int(sys.argv[1])
src=open('/verif/check').read()
for m in re.finditer(r'"(C\d\d)": \("\w+", \((\d+), (\d+)\)', src):
    prop, q = m.group(1), int(m.group(2))
    n=max(q//frac, 16)
    for w in range(8):
        print(prop, w, (n - w + 7)//8)
PY
export LLVM_PROFILE_FILE="$work/raw/%p-%m.profraw"
xargs -P 8 -L 1 sh -c "$bin worker --prop \$0 --seed 20260926 --start \$1 --stride 8 --count \$2 --tier quick --profile simdebug --budget-s 600 >/dev/null 2>&1" < "$work/jobs.txt"
"$tools/llvm-profdata" merge -sparse "$work"/raw/*.profraw -o "$work/merged.profdata" || exit 2
"$tools/llvm-cov" report "$bin" -instr-profile="$work/merged.profdata" --ignore-filename-regex='(\.cargo|rustc|/verif/)' 2>/dev/null > "$work/report.txt"
"$tools/llvm-cov" export "$bin" -instr-profile="$work/merged.profdata" --ignore-filename-regex='(\.cargo|rustc|/verif/)' -format=text 2>/dev/null > "$work/export.json"
python3 - <<'PY'
import json,subprocess
d=json.load(open('/root/scratch/cov/export.json'))['data'][0]
print("file                                                          lines  covered  %")
for f in sorted(d['files'], key=lambda f:f['filename']):
    s=f['summary']['lines']
    if '/repo/src' in f['filename']:
        print(f"{f['filename'][6:]:60s} {s['count']:6d} {s['covered']:7d} {s['percent']:5.1f}")
never=[]
for fn in d['functions']:
    if fn['count']==0 and any('/repo/src' in x for x in fn['filenames']):
        never.append((fn['filenames'][0][6:], fn['name']))
open('/root/scratch/cov/never.txt','w').write('\n'.join(f"{a} {b}" for a,b in sorted(never)))
print(len(never), "instantiated library functions never entered (list: /root/scratch/cov/never.txt, mangled names)")
PY
