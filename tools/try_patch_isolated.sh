#!/bin/bash
# Like try_patch.sh, but without touching /repo: the change is applied in a scratch worktree of
# /repo's HEAD and the checks run from a scratch copy of /verif whose simulator path-depends on
# that worktree. Use while other runs (vp run, thorough series) are building from /repo.
# usage: tools/try_patch_isolated.sh <ABSOLUTE patch.diff> <P1> [P2 ...]
set -u
patch="$1"; shift
wt=/tmp/wt-try-$$; copy=/root/scratch/verif-try-$$
git -C /repo worktree add -q --detach "$wt" HEAD || exit 2
trap 'git -C /repo worktree remove --force "$wt"; rm -rf "$copy"; echo "[scratch worktree and copy removed]"' EXIT
git -C "$wt" apply "$patch" || { echo "patch does not apply"; exit 2; }
mkdir -p "$copy" && rsync -a --exclude target --exclude work --exclude replays --exclude .git /verif/ "$copy/"
sed -i "s#path = \"/repo\"#path = \"$wt\"#" "$copy/sim/Cargo.toml"
cd "$copy"
for p in "$@"; do
  for seed in 20260926 1; do
    out=$(VERIF_SEED=$seed ./check run "$p" --tier quick 2>&1)
    rc=$?
    echo "== $p seed=$seed rc=$rc"
    echo "$out" | grep -E "^violation:|^VIOLATION|HARNESS|quick:" | cut -c1-260 | head -12
  done
done
