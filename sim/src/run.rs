//! Run bookkeeping shared by all checks: statistics, reports, violation records.

use crate::ops::{Header, OpRec, ViolationRec};
use crate::rng::LogHash;
use serde::{Deserialize, Serialize};
use std::collections::{BTreeMap, BTreeSet};

pub const STATE_CAP: usize = 150_000;

#[derive(Clone, Debug, Default, Serialize, Deserialize)]
pub struct RunStats {
    /// oracle / monitor evaluations
    pub evaluations: u64,
    /// library calls executed (including faulted re-executions)
    pub executions: u64,
    /// history steps executed
    pub steps: u64,
    pub faults_armed: u64,
    pub faults_fired: BTreeMap<String, u64>,
    pub outcome_classes: BTreeMap<String, u64>,
    /// distinct (op kind, outcome class, fired site) tuples
    pub tuples: BTreeSet<String>,
    /// distinct canonical state hashes reached
    pub states: BTreeSet<u64>,
    pub ticks: u64,
    pub probes: BTreeMap<String, u64>,
    pub abstained: u64,
    pub panics_under_fault: u64,
    pub known_findings: BTreeMap<String, u64>,
    pub counters: BTreeMap<String, u64>,
}

impl RunStats {
    pub fn bump(&mut self, name: &str) {
        *self.counters.entry(name.to_string()).or_insert(0) += 1;
    }
    pub fn add(&mut self, name: &str, n: u64) {
        *self.counters.entry(name.to_string()).or_insert(0) += n;
    }
    pub fn merge(&mut self, o: &RunStats) {
        self.evaluations += o.evaluations;
        self.executions += o.executions;
        self.steps += o.steps;
        self.faults_armed += o.faults_armed;
        self.ticks += o.ticks;
        self.abstained += o.abstained;
        self.panics_under_fault += o.panics_under_fault;
        for (k, v) in &o.faults_fired {
            *self.faults_fired.entry(k.clone()).or_insert(0) += v;
        }
        for (k, v) in &o.outcome_classes {
            *self.outcome_classes.entry(k.clone()).or_insert(0) += v;
        }
        for (k, v) in &o.probes {
            *self.probes.entry(k.clone()).or_insert(0) += v;
        }
        for (k, v) in &o.known_findings {
            *self.known_findings.entry(k.clone()).or_insert(0) += v;
        }
        for (k, v) in &o.counters {
            let e = self.counters.entry(k.clone()).or_insert(0);
            // counters named "...max_..." are maxima, everything else is a sum
            if k.contains(".max_") {
                *e = (*e).max(*v);
            } else {
                *e += v;
            }
        }
        self.tuples.extend(o.tuples.iter().cloned());
        // cap memory/IO: beyond the cap the distinct-state count becomes a lower bound
        if self.states.len() < STATE_CAP {
            self.states.extend(o.states.iter().copied());
        } else {
            *self.counters.entry("states_not_recorded_after_cap".into()).or_insert(0) += o.states.len() as u64;
        }
    }
    pub fn take_probes(&mut self) {
        for (k, v) in delaunay::verif::probe::take() {
            *self.probes.entry(k.to_string()).or_insert(0) += v;
        }
    }
}

#[derive(Clone, Debug, Serialize, Deserialize)]
pub struct RunReport {
    pub header: Header,
    pub ops: Vec<OpRec>,
    pub violations: Vec<ViolationRec>,
    pub log_hash: u64,
    pub stats: RunStats,
    /// short human-readable trace of the run (op kinds and outcomes)
    pub trace: Vec<String>,
}

pub struct RunLog {
    pub hash: LogHash,
    pub trace: Vec<String>,
}

impl Default for RunLog {
    fn default() -> Self {
        Self { hash: LogHash::default(), trace: Vec::new() }
    }
}

impl RunLog {
    pub fn event(&mut self, s: &str) {
        self.hash.str(s);
        if self.trace.len() < 200 {
            self.trace.push(s.to_string());
        }
    }
    pub fn state(&mut self, h: u64) {
        self.hash.u64(h);
    }
}

pub fn violation(property: &str, clause: &str, step: usize, signature: String, detail: String) -> ViolationRec {
    ViolationRec { property: property.to_string(), clause: clause.to_string(), step, signature, detail }
}

/// Add a violation unless one with the same signature was already recorded in this run.
pub fn push_violation(v: &mut Vec<ViolationRec>, rec: ViolationRec) {
    if !v.iter().any(|x| x.signature == rec.signature && x.clause == rec.clause) && v.len() < 32 {
        v.push(rec);
    }
}

/// Dispatch a generic function over (dim, kernel).
#[macro_export]
macro_rules! dispatch {
    ($dim:expr, $kernel:expr, $f:ident, $($arg:expr),*) => {{
        use $crate::kfault::{SimFast, SimRobust};
        match ($dim, $kernel) {
            (2, "fast") => $f::<SimFast, 2>($($arg),*),
            (3, "fast") => $f::<SimFast, 3>($($arg),*),
            (4, "fast") => $f::<SimFast, 4>($($arg),*),
            (5, "fast") => $f::<SimFast, 5>($($arg),*),
            (2, _) => $f::<SimRobust, 2>($($arg),*),
            (3, _) => $f::<SimRobust, 3>($($arg),*),
            (4, _) => $f::<SimRobust, 4>($($arg),*),
            (5, _) => $f::<SimRobust, 5>($($arg),*),
            _ => panic!("unsupported dimension"),
        }
    }};
}
