//! The history engine: a seeded scheduler drives a small world of triangulations through a
//! sequence of public-API operations; monitors observe every step (before: the pre-state and
//! the operation about to run; after: the outcome and the post-state).

use crate::exec::{self, construct, run_mutator, OutKind, Outcome, Plan, SimKernel};
use crate::generate::{Gen, GUARANTEES};
use crate::ops::{Header, Op, OpRec, ViolationRec};
use crate::rng::{derive, Rng};
use crate::run::{RunLog, RunReport, RunStats};
use crate::snap::{Dt, Snap};

pub const SLOTS: usize = 3;

/// Progress line for the driver's hang watchdog (worker mode only; never part of the event log).
pub fn heartbeat(n: usize) {
    if HEARTBEAT.load(std::sync::atomic::Ordering::Relaxed) {
        use std::io::Write;
        let mut o = std::io::stdout().lock();
        let _ = writeln!(o, "{{\"hb\":{n}}}");
        let _ = o.flush();
    }
}

/// set by the worker subcommand: print a progress line after every history step
pub static HEARTBEAT: std::sync::atomic::AtomicBool = std::sync::atomic::AtomicBool::new(false);

pub struct World<K: SimKernel<D>, const D: usize> {
    pub objs: Vec<Option<Dt<K, D>>>,
}

pub struct StepCtx<'a, K: SimKernel<D>, const D: usize> {
    pub header: &'a Header,
    /// position of this op in the executed op list
    pub step: usize,
    pub oprec: &'a OpRec,
    pub world: &'a mut World<K, D>,
    pub stats: &'a mut RunStats,
    pub violations: &'a mut Vec<ViolationRec>,
    pub log: &'a mut RunLog,
    pub thorough: bool,
}

impl<K: SimKernel<D>, const D: usize> StepCtx<'_, K, D> {
    pub fn uuid_seed(&self) -> u64 {
        derive(self.header.run_seed, "uuid", self.oprec.idx)
    }
    pub fn plan(&self, faults: &[(String, u64)]) -> Plan {
        Plan {
            faults: faults.to_vec(),
            knobs: self.oprec.knobs.clone(),
            uuid_seed: self.uuid_seed(),
            tick_limit: 0,
        }
    }
}

pub trait Monitor<K: SimKernel<D>, const D: usize> {
    /// Called before the operation executes; `pre` is the state of the target object (if any).
    fn before(&mut self, _ctx: &mut StepCtx<'_, K, D>, _pre: Option<&Snap>) {}
    /// Called after the operation executed for real.
    fn after(&mut self, _ctx: &mut StepCtx<'_, K, D>, _pre: Option<&Snap>, _out: &Outcome, _post: Option<&Snap>) {}
    /// Called once at the end of the run.
    fn finish(&mut self, _header: &Header, _world: &mut World<K, D>, _stats: &mut RunStats, _violations: &mut Vec<ViolationRec>) {}
}

/// Legal-outcome ("class A") fault sites with the hit indices worth arming.
pub const CLASS_A: &[(&str, u64)] = &[
    ("insert.attempt.entry", 2),
    ("insert.validate_after", 1),
    ("insert.outside.cavity_degenerate", 1),
    ("repair.attempt.nonconvergent", 3),
    ("repair.postcondition.fail", 2),
    ("flip.k1_inverse.entry", 1),
    ("dt.rebuild.attempt", 2),
];

/// "Failure after the first mutation" sites (class B) plus the primitive-entry sites: armed in
/// history profiles to put calls that failed deep inside and were rolled back into the middle of
/// a history (never on Edit-API flips, whose missing rollback is known finding C03-F1).
pub const CLASS_B: &[&str] = &[
    "insert.vertex_added.retry", "insert.vertex_added.fatal", "insert.located.retry", "insert.located.fatal",
    "insert.conflict.retry", "insert.conflict.fatal", "insert.cavity.filled.retry", "insert.cavity.filled.fatal",
    "insert.cavity.wired.retry", "insert.cavity.wired.fatal", "insert.cavity.removed.retry", "insert.cavity.removed.fatal",
    "insert.cavity.normalized.retry", "insert.cavity.normalized.fatal", "insert.cavity.connected.retry",
    "insert.cavity.connected.fatal", "insert.hull.extended.retry", "insert.hull.extended.fatal",
    "insert.hull.normalized.retry", "insert.hull.normalized.fatal", "insert.hull.connected.retry",
    "insert.hull.connected.fatal", "insert.bootstrap_simplex.retry", "insert.bootstrap_simplex.fatal",
    "dt.insert.repair.postcondition", "dt.insert.repair.flip_error", "dt.insert.ridge_links", "dt.insert.orient",
    "dt.insert.check", "remove.fan_filled", "remove.wired", "remove.cells_removed", "remove.before_normalize",
    "remove.oriented", "remove.incident_assigned", "remove.vertex_removed", "dt.remove.repair", "repair.after_flip",
    "repair.budget", "prim.assign_neighbors", "prim.insert_vertex", "prim.insert_cell", "prim.tds_remove_vertex",
    "prim.assign_incident_cells", "prim.normalize_coherent_orientation", "prim.validate_facet_sharing",
    "prim.set_neighbors", "prim.normalize_and_promote", "prim.canonicalize_cells",
    "prim.validate_geometric_orientation", "prim.canonicalize_after_repair",
];

pub const KNOBS: &[(&str, &[usize])] = &[
    ("locate.max_steps", &[1, 2, 3, 5]),
    ("repair.max_flips", &[0, 1, 2, 4, 16]),
    ("repair.max_repeat_signature", &[1, 2]),
    ("insert.max_cavity_iterations", &[0, 1, 2]),
    ("insert.max_repair_iterations", &[0, 1]),
    ("rebuild.attempts", &[0, 1, 2]),
];

pub struct Profile {
    pub thorough: bool,
    /// per-mille probability that a step carries class-A faults
    pub class_a_permille: u64,
    /// per-mille probability that the run uses non-default knobs
    pub knob_permille: u64,
    /// allow clone / save-load / multi-object ops
    pub multi: bool,
    pub min_len: usize,
    pub max_len: usize,
    /// weight override hook
    pub tune: Option<fn(&mut crate::generate::MutWeights, &mut Rng, usize)>,
    /// restrict families
    pub families: &'static [&'static str],
    /// construct the initial object through a random entry point with random ConstructionOptions
    pub random_ctor: bool,
    /// per-mille probability that the constructor runs under class-A faults
    pub ctor_fault_permille: u64,
    /// never start from an empty triangulation
    pub always_construct: bool,
    /// per-mille probability of non-finite coordinates in generated insertions
    pub nonfinite_permille: u64,
    /// per-operation tick ceiling (0 = none)
    pub tick_limit: u64,
    /// see `Gen::legal_bias_permille`
    pub legal_bias_permille: u64,
    /// per-mille probability that the run starts from D+1..D+2 vertices (deep flip walks on tiny complexes)
    pub small_start_permille: u64,
    /// construct through `DelaunayTriangulationBuilder::toroidal` / `toroidal_periodic` (C16)
    pub toroidal: bool,
    /// per-mille probability that a D = 2 run is constructed through `toroidal_periodic` (a closed
    /// torus, chi = 0: the only valid states where simplex counts cannot be derived from each other
    /// by the ball's Euler relation)
    pub periodic2d_permille: u64,
    /// see `Gen::preset_incident_permille`
    pub preset_incident_permille: u64,
    /// per-mille probability that a step (or the constructor) runs with one predicate call of
    /// the kernel seam failing (F-kernel)
    pub kernel_fault_permille: u64,
    /// per-mille probability that an insert / remove / repair step runs with one class-B
    /// (crash point) or primitive-entry fault armed
    pub class_b_permille: u64,
    /// see `Gen::embedded_k2_permille`
    pub embedded_k2_permille: u64,
    /// see `Gen::dup_heavy_permille`
    pub dup_heavy_permille: u64,
}

impl Default for Profile {
    fn default() -> Self {
        Self {
            thorough: false,
            class_a_permille: 0,
            knob_permille: 0,
            multi: false,
            min_len: 4,
            max_len: 14,
            tune: None,
            families: &["grid", "dyadic", "jitter", "cosph", "dyadic", "grid"],
            random_ctor: false,
            ctor_fault_permille: 0,
            always_construct: false,
            nonfinite_permille: 0,
            legal_bias_permille: 0,
            small_start_permille: 0,
            toroidal: false,
            periodic2d_permille: 0,
            preset_incident_permille: 0,
            kernel_fault_permille: 0,
            class_b_permille: 0,
            embedded_k2_permille: 0,
            dup_heavy_permille: 0,
            tick_limit: 0,
        }
    }
}

fn record_outcome(stats: &mut RunStats, op: &Op, out: &Outcome) {
    *stats.outcome_classes.entry(format!("{}:{}", op.kind(), out.class())).or_insert(0) += 1;
    for (s, _) in &out.fired {
        *stats.faults_fired.entry(s.clone()).or_insert(0) += 1;
    }
    let fired = out.fired.first().map_or("-", |f| f.0.as_str());
    stats.tuples.insert(format!("{}|{}|{}", op.kind(), out.class(), fired));
    stats.ticks += out.ticks;
    stats.executions += 1;
    // "rare condition was hit" probes derived from the work clock and the outcome
    for (kind, n) in &out.tick_kinds {
        if matches!(kind.as_str(), "locate.scan" | "insert.cavity_iter" | "insert.facet_repair_iter" | "insert.hull_repair_iter" | "rebuild.attempt" | "bulk.shuffle_attempt") {
            *stats.probes.entry(format!("reached:{kind}")).or_insert(0) += 1;
        }
        if kind == "repair.attempt" && *n >= 2 {
            *stats.probes.entry("reached:repair.attempt>=2".into()).or_insert(0) += 1;
        }
        if kind == "insert.perturbation_retry" {
            *stats.probes.entry("reached:insert.perturbation_retry".into()).or_insert(0) += 1;
        }
    }
    if out.used_heuristic {
        *stats.probes.entry("reached:heuristic_rebuild_used".into()).or_insert(0) += 1;
    }
    if out.kind == OutKind::Skipped {
        *stats.probes.entry(format!("reached:skipped:{}", out.tag)).or_insert(0) += 1;
    }
}

/// Execute a (possibly multi-object) op against the world.
pub fn execute<K: SimKernel<D>, const D: usize>(
    world: &mut World<K, D>,
    header: &Header,
    oprec: &OpRec,
) -> Outcome {
    let plan = Plan {
        faults: oprec.faults.clone(),
        knobs: oprec.knobs.clone(),
        uuid_seed: derive(header.run_seed, "uuid", oprec.idx),
        tick_limit: header.params.get("tick_limit").copied().unwrap_or(0).max(0) as u64,
    };
    match &oprec.op {
        Op::New { obj, .. } | Op::Empty { obj, .. } => {
            let b = construct::<K, D>(&plan, &oprec.op);
            if *obj < world.objs.len() {
                if b.dt.is_some() {
                    world.objs[*obj] = b.dt;
                }
            }
            b.out
        }
        Op::CloneTo { obj, target } => {
            if *obj >= world.objs.len() || *target >= world.objs.len() || obj == target {
                return Outcome::unresolved("slot");
            }
            match world.objs[*obj].as_ref().map(Clone::clone) {
                Some(c) => {
                    world.objs[*target] = Some(c);
                    exec::with_plan(&plan, || Outcome::unresolved("noop")).ok_as("cloned")
                }
                None => Outcome::unresolved("empty slot"),
            }
        }
        Op::SaveLoad { obj, target } => {
            if *obj >= world.objs.len() || *target >= world.objs.len() {
                return Outcome::unresolved("slot");
            }
            let Some(src) = world.objs[*obj].as_ref() else { return Outcome::unresolved("empty slot") };
            let tg = src.topology_guarantee();
            let mut loaded: Option<Dt<K, D>> = None;
            let out = exec::with_plan(&plan, || match exec::save(src) {
                Ok(bytes) => match exec::load::<K, D>(&bytes, tg) {
                    Ok(dt) => {
                        loaded = Some(dt);
                        Outcome::unresolved("noop").ok_as("reloaded")
                    }
                    Err(e) => Outcome::unresolved("noop").err_as("load", e),
                },
                Err(e) => Outcome::unresolved("noop").err_as("save", e),
            });
            if let Some(dt) = loaded {
                world.objs[*target] = Some(dt);
            }
            out
        }
        Op::Nop => Outcome::unresolved("nop"),
        op => {
            let Some(obj) = op.obj() else { return Outcome::unresolved("no object") };
            let Some(Some(dt)) = world.objs.get_mut(obj) else { return Outcome::unresolved("empty slot") };
            run_mutator(dt, &plan, op)
        }
    }
}

impl Outcome {
    pub fn ok_as(mut self, tag: &str) -> Self {
        self.kind = OutKind::Ok;
        self.tag = tag.to_string();
        self.detail.clear();
        self
    }
    pub fn err_as(mut self, tag: &str, detail: String) -> Self {
        self.kind = OutKind::Err;
        self.tag = tag.to_string();
        self.detail = detail;
        self
    }
}

pub fn snap_of_slot<K: SimKernel<D>, const D: usize>(world: &World<K, D>, slot: Option<usize>) -> Option<Snap> {
    let dt = world.objs.get(slot?)?.as_ref()?;
    std::panic::catch_unwind(std::panic::AssertUnwindSafe(|| Snap::of(dt))).ok()
}

/// Run one history. `replay`: execute this op list instead of generating.
pub fn run<K: SimKernel<D>, const D: usize>(
    header: &Header,
    profile: &Profile,
    replay: Option<&[OpRec]>,
    monitors: &mut [&mut dyn Monitor<K, D>],
) -> RunReport {
    let rs = header.run_seed;
    crate::exact::set_abs_band_safety(if header.family == "small" { 10.0 } else { 1e6 });
    let mut cfg = Rng::sub(rs, "cfg", 0);
    let mut gener = Gen::new(rs, D, &header.family, profile.thorough);
    gener.nonfinite_permille = profile.nonfinite_permille;
    gener.legal_bias_permille = profile.legal_bias_permille;
    gener.preset_incident_permille = profile.preset_incident_permille;
    gener.embedded_k2_permille = profile.embedded_k2_permille;
    gener.dup_heavy_permille = profile.dup_heavy_permille;
    if let Some(tune) = profile.tune {
        let mut r = Rng::sub(rs, "tune", 0);
        tune(&mut gener.weights, &mut r, D);
    }
    let mut world: World<K, D> = World { objs: (0..SLOTS).map(|_| None).collect() };
    let mut stats = RunStats::default();
    let mut violations: Vec<ViolationRec> = Vec::new();
    let mut log = RunLog::default();
    let mut ops: Vec<OpRec> = Vec::new();

    // per-run knobs
    let mut knobs: Vec<(String, usize)> = Vec::new();
    if cfg.below(1000) < profile.knob_permille {
        for (name, values) in KNOBS {
            if cfg.chance(1, 3) {
                knobs.push(((*name).to_string(), *cfg.pick(values)));
            }
        }
    }

    // scripted prologue: construction + initial policies
    let mut prologue: Vec<Op> = Vec::new();
    let tg = *cfg.pick(GUARANTEES);
    let maxv = gener.max_vertices;
    let n0 = if !profile.always_construct && cfg.chance(1, 4) { 0 } else { D + 1 + cfg.usize_below(maxv.saturating_sub(D + 1).max(1)) };
    let n0 = if profile.small_start_permille > 0 && Rng::sub(rs, "small-start", 0).below(1000) < profile.small_start_permille {
        D + 1 + Rng::sub(rs, "small-start", 1).usize_below(2)
    } else {
        n0
    };
    // the pinwheel family wants exactly its structured prefix (outer + twisted inner simplex) most of the time
    let n0 = if header.family == "pinwheel" && Rng::sub(rs, "pinwheel-n0", 0).chance(2, 3) { (2 * (D + 1)).min(maxv.max(2 * (D + 1))) } else { n0 };
    if n0 == 0 {
        prologue.push(Op::Empty { obj: 0, tg: tg.to_string() });
    } else {
        let mut r = Rng::sub(rs, "init", 0);
        let periodic_only = !profile.toroidal && D == 2 && profile.periodic2d_permille > 0 && Rng::sub(rs, "periodic2d", 0).below(1000) < profile.periodic2d_permille;
        let (ctor, opts) = if periodic_only {
            let per = crate::generate::torus_periods(rs, D);
            let hex: Vec<String> = per.iter().map(|p| format!("{:x}", p.to_bits())).collect();
            (format!("toroidal_periodic:{}", hex.join(",")), crate::ops::Opts::default())
        } else if profile.toroidal {
            let per = crate::generate::torus_periods(rs, D);
            let hex: Vec<String> = per.iter().map(|p| format!("{:x}", p.to_bits())).collect();
            let mode = if D == 2 && r.chance(3, 10) { "toroidal_periodic" } else { "toroidal" };
            (format!("{mode}:{}", hex.join(",")), if r.chance(1, 2) { gener.random_opts(&mut r) } else { crate::ops::Opts::default() })
        } else if profile.random_ctor {
            ((*r.pick(&["options_stats", "options_stats", "options", "guarantee", "kernel", "builder"])).to_string(), gener.random_opts(&mut r))
        } else {
            ("guarantee".to_string(), crate::ops::Opts::default())
        };
        prologue.push(Op::New { obj: 0, verts: gener.initial_vertices(&mut r, n0), ctor, tg: tg.to_string(), opts });
    }
    for (which, values) in [
        ("validation", &["Never", "OnSuspicion", "Always", "DebugOnly"][..]),
        ("repair", &["Never", "EveryInsertion", "EveryInsertion", "EveryN2"][..]),
        ("check", &["EndOnly", "EndOnly", "EveryN1", "EveryN2"][..]),
    ] {
        if cfg.chance(1, 2) {
            prologue.push(Op::SetPolicy { obj: 0, which: which.into(), value: (*cfg.pick(values)).to_string() });
        }
    }
    let len = profile.min_len + cfg.usize_below(profile.max_len - profile.min_len + 1);

    let total = replay.map_or(prologue.len() + len, <[OpRec]>::len);
    let mut i = 0usize;
    while i < total {
        let oprec: OpRec = if let Some(list) = replay {
            list[i].clone()
        } else if i < prologue.len() {
            let mut faults: Vec<(String, u64)> = Vec::new();
            if i == 0 && cfg.below(1000) < profile.ctor_fault_permille {
                let mut r = Rng::sub(rs, "ctor-faults", 0);
                let n = 1 + r.usize_below(3);
                for _ in 0..n {
                    match r.below(6) {
                        0 => faults.push(("insert.attempt.entry".into(), r.below(40))),
                        1 => faults.push(("insert.validate_after".into(), r.below(12))),
                        2 => {
                            let k = r.below(30);
                            for j in 0..=r.below(3) {
                                faults.push(("repair.attempt.nonconvergent".into(), k + j));
                            }
                        }
                        3 => {
                            for j in 0..=r.below(3) {
                                faults.push(("bulk.final_check.fail".into(), j));
                            }
                        }
                        4 => faults.push(("repair.postcondition.fail".into(), r.below(20))),
                        _ => faults.push(("insert.outside.cavity_degenerate".into(), r.below(6))),
                    }
                }
            }
            if i == 0 && profile.kernel_fault_permille > 0 {
                let mut r = Rng::sub(rs, "ctor-kfaults", 0);
                if r.below(1000) < profile.kernel_fault_permille {
                    let site = if r.chance(1, 2) { crate::kfault::ORIENTATION } else { crate::kfault::IN_SPHERE };
                    let span = *r.pick(&[8u64, 40, 200, 1000]);
                    faults.push((site.to_string(), r.below(span)));
                }
            }
            OpRec { idx: i as u64, op: prologue[i].clone(), faults, knobs: knobs.clone() }
        } else {
            let idx = i as u64;
            let mut r = Rng::sub(rs, "sched", idx);
            // choose target object among live ones (mostly slot 0)
            let live: Vec<usize> = (0..SLOTS).filter(|s| world.objs[*s].is_some()).collect();
            if live.is_empty() {
                break;
            }
            let obj = if live.len() > 1 && r.chance(1, 3) { *r.pick(&live) } else { live[0] };
            let op = if profile.multi && r.chance(1, 10) {
                let target = (obj + 1 + r.usize_below(SLOTS - 1)) % SLOTS;
                if r.chance(1, 2) { Op::CloneTo { obj, target } } else { Op::SaveLoad { obj, target } }
            } else {
                let snap = snap_of_slot(&world, Some(obj)).expect("live object");
                gener.observe(&snap);
                gener.next_mutator(idx, &snap, obj)
            };
            let mut faults = Vec::new();
            if r.below(1000) < profile.class_a_permille {
                let (site, n) = *r.pick(CLASS_A);
                let first = r.below(n);
                faults.push((site.to_string(), first));
                if site == "repair.attempt.nonconvergent" && r.chance(1, 2) {
                    // several consecutive attempts fail → deeper fallbacks
                    for k in first + 1..first + 1 + r.below(3) {
                        faults.push((site.to_string(), k));
                    }
                }
            }
            if profile.class_b_permille > 0
                && matches!(op, Op::Insert { .. } | Op::Remove { .. } | Op::Repair { .. } | Op::RepairAdv { .. })
            {
                let mut br = Rng::sub(rs, "bfault", idx);
                if br.below(1000) < profile.class_b_permille {
                    let site = *br.pick(CLASS_B);
                    let hit = *br.pick(&[0u64, 0, 0, 1, 1, 2, 3, 5, 8]);
                    faults.push((site.to_string(), hit));
                }
            }
            if profile.kernel_fault_permille > 0 {
                let mut kr = Rng::sub(rs, "kfault", idx);
                if kr.below(1000) < profile.kernel_fault_permille {
                    let site = if kr.chance(1, 2) { crate::kfault::ORIENTATION } else { crate::kfault::IN_SPHERE };
                    let span = *kr.pick(&[4u64, 16, 64, 256]);
                    faults.push((site.to_string(), kr.below(span)));
                }
            }
            OpRec { idx, op, faults, knobs: knobs.clone() }
        };

        let target = oprec.op.obj();
        let pre = match &oprec.op {
            Op::New { .. } | Op::Empty { .. } => None,
            _ => snap_of_slot(&world, target),
        };
        if let Some(p) = &pre {
            gener.observe(p);
            // remember vertices for "former vertex" probes
            if let Op::Remove { uuid, .. } = &oprec.op
                && let Some(v) = p.verts.iter().find(|v| v.uuid == uuid.0)
                && gener.former.len() < 16
            {
                gener.former.push(crate::ops::VSpec::new(&v.coords, v.uuid, v.data));
            }
        }
        {
            let mut ctx = StepCtx {
                header,
                step: i,
                oprec: &oprec,
                world: &mut world,
                stats: &mut stats,
                violations: &mut violations,
                log: &mut log,
                thorough: profile.thorough,
            };
            for m in monitors.iter_mut() {
                m.before(&mut ctx, pre.as_ref());
            }
        }
        let out = execute(&mut world, header, &oprec);
        stats.faults_armed += oprec.faults.len() as u64;
        record_outcome(&mut stats, &oprec.op, &out);
        stats.steps += 1;
        // progress line for the driver's hang watchdog (worker mode only; never part of the event log)
        if HEARTBEAT.load(std::sync::atomic::Ordering::Relaxed) {
            use std::io::Write;
            let mut o = std::io::stdout().lock();
            let _ = writeln!(o, "{{\"hb\":{}}}", i);
            let _ = o.flush();
        }
        let post_slot = match &oprec.op {
            Op::CloneTo { target, .. } | Op::SaveLoad { target, .. } => Some(*target),
            _ => target,
        };
        let post = snap_of_slot(&world, post_slot);
        log.event(&format!("{} {} -> {}", oprec.idx, oprec.op.kind(), out.class()));
        if let Some(p) = &post {
            let h = p.hash64();
            log.state(h);
            stats.states.insert(p.canonical().hash64());
        }
        {
            let mut ctx = StepCtx {
                header,
                step: i,
                oprec: &oprec,
                world: &mut world,
                stats: &mut stats,
                violations: &mut violations,
                log: &mut log,
                thorough: profile.thorough,
            };
            for m in monitors.iter_mut() {
                m.after(&mut ctx, pre.as_ref(), &out, post.as_ref());
            }
        }
        let panicked = out.kind == OutKind::Panic;
        ops.push(oprec);
        if panicked {
            // the object may be half-mutated; the run ends here
            break;
        }
        i += 1;
    }
    for m in monitors.iter_mut() {
        m.finish(header, &mut world, &mut stats, &mut violations);
    }
    stats.take_probes();
    RunReport { header: header.clone(), ops, violations, log_hash: log.hash.0, stats, trace: log.trace }
}
