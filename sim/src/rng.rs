//! Deterministic PRNG: everything in a run derives from one integer.
//!
//! Sub-streams are keyed by (seed, purpose tag, index) — not by draw order — so that
//! removing step *i* during minimisation does not shift the draws of step *i+1*.

#[derive(Clone, Debug)]
pub struct Rng {
    state: u64,
}

fn mix(mut z: u64) -> u64 {
    z = (z ^ (z >> 30)).wrapping_mul(0xBF58_476D_1CE4_E5B9);
    z = (z ^ (z >> 27)).wrapping_mul(0x94D0_49BB_1331_11EB);
    z ^ (z >> 31)
}

/// FNV-1a over the tag bytes (stable across runs/platforms).
fn tag_hash(tag: &str) -> u64 {
    let mut h: u64 = 0xcbf2_9ce4_8422_2325;
    for b in tag.as_bytes() {
        h ^= u64::from(*b);
        h = h.wrapping_mul(0x0000_0100_0000_01B3);
    }
    h
}

/// Derive a sub-seed from (seed, tag, index).
pub fn derive(seed: u64, tag: &str, index: u64) -> u64 {
    let a = mix(seed.wrapping_add(0x9E37_79B9_7F4A_7C15));
    let b = mix(a ^ tag_hash(tag));
    mix(b ^ index.wrapping_mul(0xD1B5_4A32_D192_ED03).wrapping_add(0x2545_F491_4F6C_DD1D))
}

impl Rng {
    pub fn new(seed: u64) -> Self {
        Self { state: seed }
    }

    pub fn sub(seed: u64, tag: &str, index: u64) -> Self {
        Self::new(derive(seed, tag, index))
    }

    pub fn next_u64(&mut self) -> u64 {
        self.state = self.state.wrapping_add(0x9E37_79B9_7F4A_7C15);
        mix(self.state)
    }

    /// Uniform in [0, n). n must be > 0.
    pub fn below(&mut self, n: u64) -> u64 {
        debug_assert!(n > 0);
        // Multiply-shift; bias is negligible for our n (< 2^32).
        (((u128::from(self.next_u64())) * u128::from(n)) >> 64) as u64
    }

    pub fn usize_below(&mut self, n: usize) -> usize {
        self.below(n as u64) as usize
    }

    /// Uniform in [lo, hi] inclusive.
    pub fn range_i64(&mut self, lo: i64, hi: i64) -> i64 {
        debug_assert!(hi >= lo);
        lo + self.below((hi - lo) as u64 + 1) as i64
    }

    pub fn chance(&mut self, num: u64, den: u64) -> bool {
        self.below(den) < num
    }

    pub fn unit_f64(&mut self) -> f64 {
        (self.next_u64() >> 11) as f64 / (1u64 << 53) as f64
    }

    pub fn pick<'a, T>(&mut self, xs: &'a [T]) -> &'a T {
        &xs[self.usize_below(xs.len())]
    }

    /// Weighted pick: returns index.
    pub fn weighted(&mut self, weights: &[u32]) -> usize {
        let total: u64 = weights.iter().map(|w| u64::from(*w)).sum();
        if total == 0 {
            return 0;
        }
        let mut r = self.below(total);
        for (i, w) in weights.iter().enumerate() {
            let w = u64::from(*w);
            if r < w {
                return i;
            }
            r -= w;
        }
        weights.len() - 1
    }

    pub fn shuffle<T>(&mut self, xs: &mut [T]) {
        for i in (1..xs.len()).rev() {
            let j = self.usize_below(i + 1);
            xs.swap(i, j);
        }
    }

    /// A v4-shaped UUID (as u128) from this stream.
    pub fn uuid128(&mut self) -> u128 {
        let hi = self.next_u64();
        let lo = self.next_u64();
        let mut bytes = [0u8; 16];
        bytes[..8].copy_from_slice(&hi.to_be_bytes());
        bytes[8..].copy_from_slice(&lo.to_be_bytes());
        bytes[6] = (bytes[6] & 0x0F) | 0x40;
        bytes[8] = (bytes[8] & 0x3F) | 0x80;
        u128::from_be_bytes(bytes)
    }
}

/// 64-bit FNV-style streaming hasher for event logs (stable, no std RandomState).
#[derive(Clone, Debug)]
pub struct LogHash(pub u64);

impl Default for LogHash {
    fn default() -> Self {
        Self(0xcbf2_9ce4_8422_2325)
    }
}

impl LogHash {
    pub fn u64(&mut self, v: u64) {
        for b in v.to_le_bytes() {
            self.0 ^= u64::from(b);
            self.0 = self.0.wrapping_mul(0x0000_0100_0000_01B3);
        }
    }
    pub fn str(&mut self, s: &str) {
        for b in s.as_bytes() {
            self.0 ^= u64::from(*b);
            self.0 = self.0.wrapping_mul(0x0000_0100_0000_01B3);
        }
        self.u64(s.len() as u64);
    }
    pub fn u128(&mut self, v: u128) {
        self.u64(v as u64);
        self.u64((v >> 64) as u64);
    }
}
