//! Reference Delaunay model: brute-force empty-circumsphere check in exact arithmetic.
//!
//! "is Delaunay" ⇔ no vertex lies *strictly inside* the circumsphere of any cell (points on the
//! sphere are allowed); instances whose exact determinant lies inside the predicates' tolerance
//! band are abstained from (counted). A triangulation is *strictly* Delaunay when every other
//! vertex is strictly outside every circumsphere (decidably); a structurally valid strictly
//! Delaunay triangulation is the unique Delaunay triangulation of its vertex set, so two such
//! triangulations of the same vertex set must have identical cell sets.

use crate::exact;
use crate::snap::Snap;

#[derive(Clone, Debug, Default)]
pub struct DelaunayReport {
    /// (cell key, vertex key) with the vertex strictly inside the cell's circumsphere (decided)
    pub violations: Vec<(u64, u64)>,
    pub abstained: usize,
    pub pairs: usize,
    /// every (cell, other vertex) pair decided strictly outside
    pub strict: bool,
    /// some cell is exactly degenerate (flat) — in-sphere undefined there
    pub degenerate_cells: usize,
    /// number of violations (A, v) where v is the apex of a facet-neighbour B of A (a *local*
    /// violation: then A's apex is inside B's circumsphere as well, by symmetry)
    pub local_violations: usize,
    /// locally non-Delaunay facets (pairs of facet-adjacent cells in mutual violation), and how
    /// many of them have a k=2 flip that would create an exactly degenerate (flat) cell
    pub local_facets: usize,
    pub local_facets_degenerate_flip: usize,
    /// of those, the ones whose flat replacement cell lies in a supporting hyperplane of the hull
    /// (every vertex weakly on one side): a flat configuration *on the boundary*
    pub local_facets_degenerate_on_hull: usize,
}

impl DelaunayReport {
    /// "local" when every violation is a facet-neighbour (mutual) violation, "global" otherwise.
    pub fn violation_class(&self) -> String {
        if self.violations.is_empty() {
            return "none".into();
        }
        let scope = if self.local_violations == self.violations.len() { "all-local-mutual" } else { "has-nonlocal" };
        if self.local_facets > 0 && self.local_facets == self.local_facets_degenerate_flip {
            let place = if self.local_facets_degenerate_on_hull > 0 { "hull" } else { "interior" };
            return format!("{scope}|local-flips-all-degenerate|flat={place}");
        }
        format!("{scope}|local-flip-available")
    }
}

/// `flat` holds D+1 points of one hyperplane. True when that hyperplane supports the convex hull of
/// all vertices, i.e. every vertex lies weakly on one side of it (exact signs; an undecidable
/// non-zero sign counts as "no" so that the answer errs towards "interior").
fn flat_cell_on_hull_plane(snap: &Snap, flat: &[&[f64]]) -> bool {
    let d = snap.dim;
    for omit in 0..flat.len() {
        let base: Vec<&[f64]> = flat.iter().enumerate().filter(|(i, _)| *i != omit).map(|(_, p)| *p).collect();
        if base.len() != d {
            continue;
        }
        let (mut pos, mut neg, mut unsure) = (0usize, 0usize, 0usize);
        for v in &snap.verts {
            let mut pts = base.clone();
            pts.push(v.coords.as_slice());
            let o = exact::orient(&pts);
            if o.sign != 0 && !o.decidable {
                unsure += 1;
            } else if o.sign > 0 {
                pos += 1;
            } else if o.sign < 0 {
                neg += 1;
            }
        }
        if pos + neg == 0 {
            // these D points are themselves affinely dependent: try another subset
            continue;
        }
        return unsure == 0 && (pos == 0 || neg == 0);
    }
    false
}

pub fn check(snap: &Snap) -> DelaunayReport {
    let coords = snap.key_to_coords();
    let mut rep = DelaunayReport { strict: true, ..Default::default() };
    for c in &snap.cells {
        let pts: Option<Vec<&[f64]>> = c.verts.iter().map(|k| coords.get(k).copied()).collect();
        let Some(pts) = pts else {
            rep.strict = false;
            continue;
        };
        if pts.len() != snap.dim + 1 {
            rep.strict = false;
            continue;
        }
        let o = exact::orient(&pts);
        if o.sign == 0 || !o.decidable {
            // flat (or flat within the tolerance band) simplex: in-sphere undefined
            rep.degenerate_cells += 1;
            rep.strict = false;
            continue;
        }
        for v in &snap.verts {
            if c.verts.contains(&v.key) {
                continue;
            }
            rep.pairs += 1;
            let s = exact::insphere(&pts, &v.coords);
            if !s.decidable {
                rep.abstained += 1;
                rep.strict = false;
                continue;
            }
            if s.sign > 0 {
                rep.violations.push((c.key, v.key));
                rep.strict = false;
                // is v the apex of a cell sharing a facet with c?
                let is_local = snap.cells.iter().any(|b| {
                    b.key != c.key
                        && b.verts.contains(&v.key)
                        && b.verts.iter().filter(|x| c.verts.contains(x)).count() == snap.dim
                });
                if is_local {
                    rep.local_violations += 1;
                    // the facet shared by c and the neighbour b whose apex is v
                    if let Some(b) = snap.cells.iter().find(|b| {
                        b.key != c.key
                            && b.verts.contains(&v.key)
                            && b.verts.iter().filter(|x| c.verts.contains(x)).count() == snap.dim
                    }) && c.key < b.key
                    {
                        rep.local_facets += 1;
                        let facet: Vec<u64> = c.verts.iter().copied().filter(|x| b.verts.contains(x)).collect();
                        let apex_a = c.verts.iter().copied().find(|x| !b.verts.contains(x));
                        if let Some(apex_a) = apex_a
                            && let (Some(pa), Some(pb)) = (coords.get(&apex_a), coords.get(&v.key))
                        {
                            let mut degenerate = false;
                            let mut on_hull = false;
                            for omit in &facet {
                                let mut pts: Vec<&[f64]> = vec![pa, pb];
                                for f in &facet {
                                    if f != omit
                                        && let Some(p) = coords.get(f)
                                    {
                                        pts.push(p);
                                    }
                                }
                                if pts.len() == snap.dim + 1 {
                                    // flat exactly, or flat within the predicates' tolerance band
                                    let o = exact::orient(&pts);
                                    if o.sign == 0 || !o.decidable {
                                        degenerate = true;
                                        if o.sign == 0 && flat_cell_on_hull_plane(snap, &pts) {
                                            on_hull = true;
                                        }
                                    }
                                }
                            }
                            if degenerate {
                                rep.local_facets_degenerate_flip += 1;
                                if on_hull {
                                    rep.local_facets_degenerate_on_hull += 1;
                                }
                            }
                        }
                    }
                }
            } else if s.sign == 0 {
                rep.strict = false;
            }
        }
    }
    rep
}

#[cfg(test)]
mod regress {
    #[test]
    fn c08_snap() {
        let Ok(text) = std::fs::read_to_string("/root/scratch/c08b.snap.json") else { return };
        let snaps: Vec<crate::snap::Snap> = serde_json::from_str(&text).unwrap();
        let r = super::check(&snaps[0]);
        eprintln!("violations {:x?} abst {} local {} facets {} deg {}", r.violations, r.abstained, r.local_violations, r.local_facets, r.local_facets_degenerate_flip);
    }
}
