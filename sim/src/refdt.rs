//! Reference Delaunay model: brute-force empty-circumsphere check in exact arithmetic.
//!
//! "is Delaunay" ⇔ no vertex lies *strictly inside* the circumsphere of any cell (points on the
//! sphere are allowed); instances whose exact determinant lies inside the predicates' tolerance
//! band are abstained from (counted). A triangulation is *strictly* Delaunay when every other
//! vertex is strictly outside every circumsphere (decidably); a structurally valid strictly
//! Delaunay triangulation is the unique Delaunay triangulation of its vertex set, so two such
//! triangulations of the same vertex set must have identical cell sets.

use crate::exact;
use crate::snap::Snap;

#[derive(Clone, Debug, Default)]
pub struct DelaunayReport {
    /// (cell key, vertex key) with the vertex strictly inside the cell's circumsphere (decided)
    pub violations: Vec<(u64, u64)>,
    pub abstained: usize,
    pub pairs: usize,
    /// every (cell, other vertex) pair decided strictly outside
    pub strict: bool,
    /// some cell is exactly degenerate (flat) — in-sphere undefined there
    pub degenerate_cells: usize,
}

pub fn check(snap: &Snap) -> DelaunayReport {
    let coords = snap.key_to_coords();
    let mut rep = DelaunayReport { strict: true, ..Default::default() };
    for c in &snap.cells {
        let pts: Option<Vec<&[f64]>> = c.verts.iter().map(|k| coords.get(k).copied()).collect();
        let Some(pts) = pts else {
            rep.strict = false;
            continue;
        };
        if pts.len() != snap.dim + 1 {
            rep.strict = false;
            continue;
        }
        for v in &snap.verts {
            if c.verts.contains(&v.key) {
                continue;
            }
            rep.pairs += 1;
            let s = exact::insphere(&pts, &v.coords);
            if s.sign == 0 && !s.decidable {
                // degenerate simplex
                rep.degenerate_cells += 1;
                rep.strict = false;
                break;
            }
            if !s.decidable {
                rep.abstained += 1;
                rep.strict = false;
                continue;
            }
            if s.sign > 0 {
                rep.violations.push((c.key, v.key));
                rep.strict = false;
            } else if s.sign == 0 {
                rep.strict = false;
            }
        }
    }
    rep
}
