//! C09 — duplicate coordinates and UUIDs are rejected in every history.
//!
//! After every step (of histories mixing construction with every dedup policy, insertion,
//! removal, Edit-API vertex insertion/removal, repairs with rebuild, clone, save/load,
//! cache-dropping accessors and rolled-back calls) probe insertions are made on a clone at /
//! near a current vertex, at a former vertex, and with a reused UUID, and compared with the
//! duplicate model (exact distances against the live vertex set).

use crate::exact;
use crate::exec::{run_mutator, OutKind, Outcome, SimKernel};
use crate::history::{Monitor, StepCtx};
use crate::ops::{Hex128, Op, VSpec};
use crate::rng::Rng;
use crate::run::{push_violation, violation};
use crate::snap::Snap;

pub struct C09 {
    pub former: Vec<Vec<f64>>,
}

const TOL: f64 = 1e-10;

/// Some(true): clearly within tolerance of a live vertex; Some(false): clearly not; None: borderline.
fn dup_model(s: &Snap, p: &[f64]) -> Option<bool> {
    let mut borderline = false;
    for v in &s.verts {
        if exact::dist_sq_lt(&v.coords, p, TOL * 0.9) {
            return Some(true);
        }
        if exact::dist_sq_lt(&v.coords, p, TOL * 1.1) {
            borderline = true;
        }
    }
    if borderline { None } else { Some(false) }
}

fn is_dup_outcome(o: &Outcome) -> bool {
    o.tag == "DuplicateCoordinates"
}

impl<K: SimKernel<D>, const D: usize> Monitor<K, D> for C09 {
    #[allow(clippy::too_many_lines)]
    fn after(&mut self, ctx: &mut StepCtx<'_, K, D>, pre: Option<&Snap>, out: &Outcome, post: Option<&Snap>) {
        if matches!(out.kind, OutKind::Unresolved | OutKind::Panic) {
            return;
        }
        // remember positions of vertices that disappear
        if let (Some(pre), Some(post)) = (pre, post) {
            for v in &pre.verts {
                if !post.verts.iter().any(|w| w.uuid == v.uuid) && self.former.len() < 32 {
                    self.former.push(v.coords.clone());
                }
            }
        }
        let slot = match &ctx.oprec.op {
            Op::CloneTo { target, .. } | Op::SaveLoad { target, .. } => Some(*target),
            op => op.obj(),
        };
        let (Some(slot), Some(post)) = (slot, post) else { return };
        let kind = ctx.oprec.op.kind();

        // (0) batch construction "skips and counts such inputs": with dedup off every input is
        // inserted, skipped as a duplicate or skipped as degenerate - and counted as such; no two
        // vertices of the result lie within the duplicate tolerance of each other
        if let (Op::New { verts, opts, .. }, OutKind::Ok) = (&ctx.oprec.op, out.kind) {
            ctx.stats.evaluations += 1;
            if let Some((inserted, sd, sg, _)) = &out.cstats {
                let dedup_off = matches!(opts.dedup.as_str(), "Off" | "Default" | "");
                if dedup_off && inserted + sd + sg != verts.len() {
                    push_violation(
                        ctx.violations,
                        violation("C09", "construction-skips-not-counted", ctx.step, format!("op=new|d={D}"), format!("{} inputs, statistics report inserted {inserted} + skipped_duplicate {sd} + skipped_degeneracy {sg}", verts.len())),
                    );
                }
                if *inserted != post.verts.len() {
                    push_violation(
                        ctx.violations,
                        violation("C09", "construction-inserted-count-wrong", ctx.step, format!("op=new|d={D}"), format!("statistics report {inserted} inserted, the result has {} vertices", post.verts.len())),
                    );
                }
            }
            // how many input positions lie farther apart than the duplicate tolerance (greedy)
            let mut distinct: Vec<Vec<f64>> = Vec::new();
            for v in verts {
                let c = v.coords();
                if !distinct.iter().any(|d| crate::exact::dist_sq_lt(d, &c, 1e-10)) {
                    distinct.push(c);
                }
            }
            let enough = if distinct.len() > D { "enough-distinct-positions" } else { "fewer-than-d-plus-1-distinct-positions" };
            for (i, v) in post.verts.iter().enumerate() {
                let mut others = post.clone();
                others.verts.remove(i);
                if dup_model(&others, &v.coords) == Some(true) {
                    push_violation(
                        ctx.violations,
                        violation("C09", "duplicate-committed", ctx.step, format!("op=new|construction|{enough}"), format!("construction kept a vertex at {:?} within the duplicate tolerance of another kept vertex", v.coords)),
                    );
                    break;
                }
            }
        }

        // (a) a vertex committed by insert* is not within tolerance of another live vertex
        if let (Op::Insert { v, .. }, Some(pre), OutKind::Ok) = (&ctx.oprec.op, pre, out.kind) {
            ctx.stats.evaluations += 1;
            if let Some(iv) = post.verts.iter().find(|x| x.uuid == v.uuid.0) {
                let mut others = pre.clone();
                others.verts.retain(|x| x.uuid != iv.uuid);
                if dup_model(&others, &iv.coords) == Some(true) {
                    push_violation(
                        ctx.violations,
                        violation("C09", "duplicate-committed", ctx.step, format!("op={kind}|history"), format!("{kind} committed a vertex at {:?} within the duplicate tolerance of an existing vertex", iv.coords)),
                    );
                }
                if pre.verts.iter().any(|x| x.uuid == v.uuid.0) {
                    push_violation(ctx.violations, violation("C09", "duplicate-uuid-committed", ctx.step, format!("op={kind}|history"), "an insertion reusing a live UUID was reported as inserted".into()));
                }
            }
        }

        // (b) probes on a clone
        let Some(base) = ctx.world.objs.get(slot).and_then(|o| o.as_ref()).cloned() else { return };
        if post.verts.is_empty() {
            return;
        }
        let mut rng = Rng::sub(ctx.header.run_seed, "probe", ctx.oprec.idx);
        let mut probes: Vec<(String, VSpec)> = Vec::new();
        let pick = |rng: &mut Rng| post.verts[rng.usize_below(post.verts.len())].clone();
        {
            let v = pick(&mut rng);
            probes.push(("at-current".into(), VSpec::new(&v.coords, rng.uuid128(), Some(1))));
            let mut near = v.coords.clone();
            let i = rng.usize_below(D);
            near[i] += if rng.chance(1, 2) { 5e-11 } else { -5e-11 };
            probes.push(("near-current".into(), VSpec::new(&near, rng.uuid128(), None)));
            let mut off = v.coords.clone();
            let j = rng.usize_below(D);
            off[j] += if rng.chance(1, 2) { 2e-10 } else { -2e-10 };
            probes.push(("just-outside-tolerance".into(), VSpec::new(&off, rng.uuid128(), None)));
            // reused uuid at a clearly fresh position
            let mut far = v.coords.clone();
            far[i] += 0.37;
            probes.push(("reused-uuid".into(), VSpec::new(&far, v.uuid, Some(2))));
        }
        if !self.former.is_empty() {
            let f = rng.pick(&self.former).clone();
            probes.push(("at-former".into(), VSpec::new(&f, rng.uuid128(), None)));
        }
        for (pi, (pname, spec)) in probes.into_iter().enumerate() {
            let stats = rng.chance(1, 2);
            let op = Op::Insert { obj: slot, v: spec.clone(), stats };
            let mut c = base.clone();
            let mut plan = ctx.plan(&[]);
            plan.uuid_seed = crate::rng::derive(ctx.header.run_seed, "probe-uuid", ctx.oprec.idx * 16 + pi as u64);
            let o = run_mutator(&mut c, &plan, &op);
            ctx.stats.executions += 1;
            ctx.stats.evaluations += 1;
            if matches!(o.kind, OutKind::Panic | OutKind::Unresolved) {
                continue;
            }
            let coords = spec.coords();
            let model = dup_model(post, &coords);
            let uuid_live = post.verts.iter().any(|x| x.uuid == spec.uuid.0);
            let sig_tail = format!("probe={pname}|after={kind}|api={}", if stats { "insert_with_statistics" } else { "insert" });
            match model {
                Some(true) => {
                    if !is_dup_outcome(&o) {
                        push_violation(
                            ctx.violations,
                            violation(
                                "C09",
                                "duplicate-not-refused-as-duplicate",
                                ctx.step,
                                format!("{sig_tail}|got={}", o.class()),
                                format!("probe at {coords:?} is within 1e-10 of a live vertex but the insertion answered {} ({})", o.class(), o.detail),
                            ),
                        );
                    } else if Snap::of(&c).diff(post).is_some() {
                        push_violation(ctx.violations, violation("C09", "state-changed-by-refused-duplicate", ctx.step, sig_tail.clone(), "duplicate refused but the triangulation changed".into()));
                    }
                }
                Some(false) => {
                    // A refusal is also legitimate when the insertion failed at the exact position,
                    // retried at the documented perturbed position (1e-8 x local scale x (axis+1))
                    // and THAT position is within tolerance of a live vertex: the refusal then
                    // names a vertex that is present. Local scale <= the farthest live vertex.
                    let reach: f64 = post.verts.iter().map(|v| v.coords.iter().zip(&coords).map(|(a, b)| (a - b).powi(2)).sum::<f64>().sqrt()).fold(1.0, f64::max);
                    let near_a_retry_position = o.tick_kinds.iter().any(|(k, _)| k == "insert.perturbation_retry")
                        && post.verts.iter().any(|v| v.coords.iter().zip(&coords).enumerate().all(|(i, (a, b))| (a - b).abs() <= 1.0001e-8 * reach * (i as f64 + 1.0) + 1.1 * TOL));
                    if is_dup_outcome(&o) && near_a_retry_position {
                        ctx.stats.bump("c09.refusal_names_a_live_vertex_next_to_the_retry_position");
                    } else if is_dup_outcome(&o) {
                        push_violation(
                            ctx.violations,
                            violation(
                                "C09",
                                "refused-as-duplicate-of-absent-vertex",
                                ctx.step,
                                sig_tail.clone(),
                                format!("probe at {coords:?} is not within 1e-10 of any live vertex but was refused as a duplicate ({})", o.detail),
                            ),
                        );
                    }
                    if uuid_live {
                        let dup_uuid = o.failed() && (o.detail.to_lowercase().contains("uuid") || o.tag.to_lowercase().contains("uuid"));
                        if !dup_uuid {
                            push_violation(
                                ctx.violations,
                                violation("C09", "reused-uuid-not-refused", ctx.step, format!("{sig_tail}|got={}", o.class()), format!("insertion reusing a live UUID answered {} ({})", o.class(), o.detail)),
                            );
                        } else if Snap::of(&c).diff(post).is_some() {
                            push_violation(ctx.violations, violation("C09", "state-changed-by-refused-uuid", ctx.step, sig_tail.clone(), "duplicate UUID refused but the triangulation changed".into()));
                        }
                    }
                }
                None => ctx.stats.abstained += 1,
            }
        }
        let _ = Hex128(0);
    }
}
