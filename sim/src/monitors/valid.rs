//! C02 / C06 / C07 / C08 — post-state validity monitors built on the reference validators
//! and the exact Delaunay model. Each clause is conditional on the pre-state satisfying the
//! same invariant (the Edit API may legitimately leave geometrically invalid states; an
//! operation is only blamed for what it broke).

use crate::exec::{resolve_cref, resolve_vref, run_mutator, OutKind, Outcome, SimKernel};
use crate::history::{Monitor, StepCtx};
use crate::ops::{CRef, Hex128, Op, VRef, VSpec};
use crate::refdt;
use crate::refval::{self, Report, Strength};
use crate::run::{push_violation, violation};
use crate::snap::Snap;
use std::collections::{BTreeMap, BTreeSet};

pub struct Valid {
    pub c02: bool,
    pub c06: bool,
    pub c07: bool,
    pub c08: bool,
}

pub fn strength_of(s: &Snap) -> Strength {
    Strength::from_policy_string(&s.policies[0])
}

pub fn full_ok(rep: &Report) -> bool {
    rep.ok() && rep.geo_positive != Some(false)
}

fn vertex_identity(s: &Snap) -> BTreeMap<u128, (Vec<u64>, Option<i32>)> {
    s.verts.iter().map(|v| (v.uuid, (v.coords.iter().map(|c| c.to_bits()).collect(), v.data))).collect()
}

fn boundary_uuid_sets(s: &Snap) -> BTreeSet<Vec<u128>> {
    let k2u = s.key_to_uuid();
    refval::boundary_facets(s)
        .into_iter()
        .map(|(f, _, _)| {
            let mut t: Vec<u128> = f.iter().map(|k| k2u.get(k).copied().unwrap_or(u128::MAX)).collect();
            t.sort_unstable();
            t
        })
        .collect()
}

fn ids_diff(a: &BTreeMap<u128, (Vec<u64>, Option<i32>)>, b: &BTreeMap<u128, (Vec<u64>, Option<i32>)>) -> String {
    for (u, (c, d)) in a {
        match b.get(u) {
            None => return format!("vertex {u:032x} disappeared"),
            Some((c2, d2)) => {
                if c != c2 {
                    let f = |v: &Vec<u64>| v.iter().map(|x| f64::from_bits(*x)).collect::<Vec<f64>>();
                    return format!("vertex {u:032x} coords {:?} -> {:?}", f(c), f(c2));
                }
                if d != d2 {
                    return format!("vertex {u:032x} data {d:?} -> {d2:?}");
                }
            }
        }
    }
    for u in b.keys() {
        if !a.contains_key(u) {
            return format!("vertex {u:032x} appeared");
        }
    }
    "no difference".into()
}

/// "coords-perturbed-small" when both maps have the same uuids and data and every coordinate
/// difference is a tiny displacement; "other" otherwise.
fn ids_diff_class(a: &BTreeMap<u128, (Vec<u64>, Option<i32>)>, b: &BTreeMap<u128, (Vec<u64>, Option<i32>)>) -> &'static str {
    if a.len() != b.len() {
        return "other";
    }
    // diameter of the bounding box of the vertex set before the call
    let dims = a.values().next().map_or(0, |(c, _)| c.len());
    let mut diag2 = 0.0f64;
    for ax in 0..dims {
        let vals: Vec<f64> = a.values().filter_map(|(c, _)| c.get(ax).map(|b| f64::from_bits(*b))).collect();
        let (lo, hi) = vals.iter().fold((f64::INFINITY, f64::NEG_INFINITY), |(lo, hi), v| (lo.min(*v), hi.max(*v)));
        if lo.is_finite() && hi.is_finite() {
            diag2 += (hi - lo) * (hi - lo);
        }
    }
    let diag = diag2.sqrt();
    for (u, (c, d)) in a {
        let Some((c2, d2)) = b.get(u) else { return "other" };
        if d != d2 || c.len() != c2.len() {
            return "other";
        }
        for (axis, (x, y)) in c.iter().zip(c2).enumerate() {
            let (x, y) = (f64::from_bits(*x), f64::from_bits(*y));
            // a few documented perturbations (1e-8 x local scale x (axis + 1), local scale bounded
            // by the diameter of the vertex set) on top of the older relative allowance; the
            // absolute part matters for coordinates near zero in a large point set (false alarm
            // from the thorough run: z = 0 moved by 1.08e-6 with a local scale of 36)
            let allowed = (1e-6 * (1.0 + x.abs())).max(4.0e-8 * diag * (axis as f64 + 1.0));
            if (x - y).abs() > allowed {
                return "other";
            }
        }
    }
    "coords-perturbed-small"
}

fn first_violation(rep: &Report) -> String {
    rep.first().map_or_else(|| "none".to_string(), |v| format!("L{} {}: {}", v.level, v.kind, v.detail))
}

fn lib_verdict<K: SimKernel<D>, const D: usize>(ctx: &StepCtx<'_, K, D>) -> String {
    let Some(obj) = ctx.oprec.op.obj() else { return "n/a".into() };
    let Some(dt) = ctx.world.objs.get(obj).and_then(|o| o.as_ref()) else { return "n/a".into() };
    match dt.as_triangulation().validate() {
        Ok(()) => "library Triangulation::validate() = Ok".into(),
        Err(e) => format!("library Triangulation::validate() = Err({e})"),
    }
}

impl Valid {
    fn check_c02<K: SimKernel<D>, const D: usize>(
        &self,
        ctx: &mut StepCtx<'_, K, D>,
        pre: &Snap,
        rv_pre: &Report,
        out: &Outcome,
        post: &Snap,
        rv_post: &Report,
        v: &VSpec,
    ) {
        let kind = ctx.oprec.op.kind();
        self.check_c02_as(ctx, kind, pre, rv_pre, out, post, rv_post, v);
    }

    #[allow(clippy::too_many_arguments)]
    fn check_c02_as<K: SimKernel<D>, const D: usize>(
        &self,
        ctx: &mut StepCtx<'_, K, D>,
        kind: &str,
        pre: &Snap,
        rv_pre: &Report,
        out: &Outcome,
        post: &Snap,
        rv_post: &Report,
        v: &VSpec,
    ) {
        ctx.stats.evaluations += 1;
        let pre_fine = refval::is_bootstrap(pre) || full_ok(rv_pre);
        // The property speaks about insertion into triangulations (empty, constructed, grown by
        // insertions). A pre-state that passes the combinatorial levels but is not an embedded
        // geometric triangulation (overlapping cells left by an Edit-API flip or by one of the
        // recorded removal/repair findings) is outside that quantifier: counted, not judged.
        let pre_geometric = refval::is_bootstrap(pre) || crate::geom::embedded(pre, rv_pre) == crate::geom::Tri::Yes;
        if pre_fine && !pre_geometric {
            ctx.stats.bump("c02.pre_state_not_an_embedded_triangulation");
        }
        if pre_fine && pre_geometric && !(refval::is_bootstrap(post) || full_ok(rv_post)) {
            push_violation(
                ctx.violations,
                violation(
                    "C02",
                    "validity-stack-broken-after-insert",
                    ctx.step,
                    format!(
                        "op={}|result={}|kind={}|d={}|pre={}",
                        kind,
                        out.class(),
                        rv_post.first().map_or("geo", |x| x.kind),
                        D,
                        // was the (valid) pre-state an embedded, exactly Delaunay triangulation?
                        if refval::is_bootstrap(pre) {
                            "bootstrap"
                        } else if crate::geom::embedded(pre, rv_pre) != crate::geom::Tri::Yes {
                            "not-embedded-or-undecided"
                        } else if refdt::check(pre).violations.is_empty() {
                            "delaunay"
                        } else {
                            "not-delaunay"
                        }
                    ),
                    format!("pre-state valid, after {} -> {}: {}; {}", kind, out.class(), first_violation(rv_post), lib_verdict(ctx)),
                ),
            );
        }
        let pre_ids = vertex_identity(pre);
        let post_ids = vertex_identity(post);
        match out.kind {
            OutKind::Ok => {
                // exactly one vertex added, carrying the caller's uuid and data; key resolves to it
                let mut expect = pre_ids.clone();
                let inserted = post.verts.iter().find(|x| x.uuid == v.uuid.0);
                let ok_key = match (inserted, out.vertex_key) {
                    (Some(iv), Some(k)) => iv.key == k,
                    _ => false,
                };
                if let Some(iv) = inserted {
                    expect.insert(iv.uuid, (iv.coords.iter().map(|c| c.to_bits()).collect(), v.data));
                }
                let coords_ok = inserted.is_some_and(|iv| {
                    // bit-identical or within the documented perturbation (1e-8 * local scale * (axis+1));
                    // local scale is bounded by the bounding-box diagonal of the pre-state plus the point.
                    let orig = v.coords();
                    let mut diag: f64 = 0.0;
                    for pv in &pre.verts {
                        let mut d2 = 0.0;
                        for i in 0..orig.len() {
                            d2 += (pv.coords[i] - orig[i]).powi(2);
                        }
                        diag = diag.max(d2.sqrt());
                    }
                    let diag = diag.max(1.0);
                    iv.coords.iter().zip(&orig).enumerate().all(|(i, (a, b))| {
                        a.to_bits() == b.to_bits() || (a - b).abs() <= 1.0001e-8 * diag * (i as f64 + 1.0)
                    })
                });
                if post_ids != expect || !ok_key || !coords_ok || post.verts.len() != pre.verts.len() + 1 {
                    push_violation(
                        ctx.violations,
                        violation(
                            "C02",
                            "reported-insertion-wrong-vertex-set",
                            ctx.step,
                            format!(
                                "op={}|key_ok={}|coords_ok={}|diff={}|rebuild={}",
                                kind,
                                ok_key,
                                coords_ok,
                                ids_diff_class(&expect, &post_ids),
                                // did this call fall back to the heuristic rebuild (which re-inserts, and re-perturbs, every vertex)?
                                out.tick_kinds.iter().any(|(k, _)| k == "rebuild.attempt")
                            ),
                            format!(
                                "reported Inserted: vertices {} -> {}, inserted uuid present: {}, returned key resolves: {}, coords ok: {}; first difference from expectation: {}",
                                pre.verts.len(), post.verts.len(), inserted.is_some(), ok_key, coords_ok, ids_diff(&expect, &post_ids)
                            ),
                        ),
                    );
                }
                // per-insertion Delaunay check enabled → Delaunay level certified
                if out.predicate_failure_absorbed() {
                    ctx.stats.bump("c02.delaunay_clause_not_judged_predicate_failure_absorbed");
                } else if post.policies[3].contains("EveryN(1)") && !post.cells.is_empty() {
                    let rd = refdt::check(post);
                    ctx.stats.abstained += rd.abstained as u64;
                    if !rd.violations.is_empty() && crate::geom::embedded(post, rv_post) == crate::geom::Tri::Yes {
                        push_violation(
                            ctx.violations,
                            violation(
                                "C02",
                                "checked-insertion-not-delaunay",
                                ctx.step,
                                format!("op={}|d={}|{}", kind, D, rd.violation_class()),
                                format!("DelaunayCheckPolicy EveryN(1), insertion reported, but {} (cell,vertex) pairs violate the empty-circumsphere property exactly, e.g. {:x?}", rd.violations.len(), rd.violations[0]),
                            ),
                        );
                    }
                }
            }
            OutKind::Skipped | OutKind::Err => {
                if post_ids != pre_ids {
                    push_violation(
                        ctx.violations,
                        violation("C02", "vertex-set-changed-on-failed-insert", ctx.step, format!("op={}|result={}", kind, out.class()), format!("vertices {} -> {}", pre.verts.len(), post.verts.len())),
                    );
                }
            }
            _ => {}
        }
    }

    fn check_c06<K: SimKernel<D>, const D: usize>(
        &self,
        ctx: &mut StepCtx<'_, K, D>,
        pre: &Snap,
        rv_pre: &Report,
        out: &Outcome,
        post: &Snap,
        rv_post: &Report,
        uuid: u128,
    ) {
        if out.kind != OutKind::Ok {
            return;
        }
        ctx.stats.evaluations += 1;
        let was_present = pre.verts.iter().any(|v| v.uuid == uuid);
        if !was_present {
            // unknown vertex: no-op reported as zero cells removed
            if out.cells_removed != Some(0) || pre.diff(post).is_some() {
                push_violation(
                    ctx.violations,
                    violation("C06", "unknown-vertex-not-noop", ctx.step, "op=remove_vertex|unknown".into(), format!("cells_removed={:?}, diff={:?}", out.cells_removed, pre.diff(post))),
                );
            }
            return;
        }
        let mut expect = vertex_identity(pre);
        expect.remove(&uuid);
        if vertex_identity(post) != expect {
            push_violation(
                ctx.violations,
                violation("C06", "vertex-set-wrong-after-removal", ctx.step, "op=remove_vertex|vertex-set".into(), format!("vertices {} -> {} (expected exactly the removed uuid to disappear)", pre.verts.len(), post.verts.len())),
            );
        }
        let pre_fine = refval::is_bootstrap(pre) || full_ok(rv_pre);
        let post_fine = refval::is_bootstrap(post) || full_ok(rv_post);
        if pre_fine && !post_fine {
            push_violation(
                ctx.violations,
                violation(
                    "C06",
                    "invalid-after-removal",
                    ctx.step,
                    {
                        let k = rv_post.first().map_or("geo", |x| x.kind);
                        if k == "vertex-link" {
                            // the library's own vertex-link validator is weaker in D >= 4 (C05-F1)
                            format!("op=remove_vertex|kind={k}|d={D}")
                        } else {
                            format!("op=remove_vertex|kind={k}")
                        }
                    },
                    format!("pre-state valid; after successful removal: {}; {}", first_violation(rv_post), lib_verdict(ctx)),
                ),
            );
        }
        // automatic repair enabled → Delaunay certified (when the pre-state was Delaunay and valid)
        // automatic repair is enabled for every policy except `Never` (removal repairs
        // unconditionally under EveryInsertion and EveryN)
        if out.predicate_failure_absorbed() {
            ctx.stats.bump("c06.delaunay_clause_not_judged_predicate_failure_absorbed");
        } else if post.policies[2] != "Never"
            && !post.cells.is_empty()
            && crate::geom::embedded(pre, rv_pre) == crate::geom::Tri::Yes
            && crate::geom::embedded(post, rv_post) == crate::geom::Tri::Yes
            && D >= 2
        {
            let rd_pre = refdt::check(pre);
            if rd_pre.violations.is_empty() {
                let rd = refdt::check(post);
                ctx.stats.abstained += rd.abstained as u64;
                if !rd.violations.is_empty() {
                    push_violation(
                        ctx.violations,
                        violation("C06", "not-delaunay-after-removal-with-repair", ctx.step, format!("op=remove_vertex|delaunay|d={}|{}", D, rd.violation_class()), format!("automatic repair enabled ({}), pre-state Delaunay; after removal {} exact violations, e.g. {:x?}", post.policies[2], rd.violations.len(), rd.violations[0])),
                    );
                }
            }
        }
    }

    fn check_c08<K: SimKernel<D>, const D: usize>(
        &self,
        ctx: &mut StepCtx<'_, K, D>,
        pre: &Snap,
        rv_pre: &Report,
        out: &Outcome,
        post: &Snap,
        rv_post: &Report,
    ) {
        let kind = ctx.oprec.op.kind();
        self.check_c08_as(ctx, kind, pre, rv_pre, out, post, rv_post);
    }

    #[allow(clippy::too_many_arguments)]
    fn check_c08_as<K: SimKernel<D>, const D: usize>(
        &self,
        ctx: &mut StepCtx<'_, K, D>,
        kind: &str,
        pre: &Snap,
        rv_pre: &Report,
        out: &Outcome,
        post: &Snap,
        rv_post: &Report,
    ) {
        // "terminates within its flip budget", by the work clock rather than by the statistics the
        // repair reports about itself: with an explicit budget m the plain entry point applies at
        // most m + 1 flips per attempt (the budget test runs after the flip is counted), whatever it
        // returns. (The advanced entry point may rebuild, and construction has budgets of its own.)
        if kind == "repair_delaunay_with_flips"
            && let Some((_, m)) = ctx.oprec.knobs.iter().find(|(n, _)| n == "repair.max_flips")
        {
            let tk = |name: &str| out.tick_kinds.iter().find(|(k, _)| k == name).map_or(0u64, |(_, n)| *n);
            let (flips, attempts) = (tk("repair.flip"), tk("repair.attempt").max(1));
            let lim = (*m as u64 + 1) * attempts;
            let e = ctx.stats.counters.entry("c08.max_permille_of_flip_budget_by_work_clock".into()).or_insert(0);
            *e = (*e).max(flips * 1000 / lim.max(1));
            if flips > lim {
                push_violation(
                    ctx.violations,
                    violation("C08", "flip-budget-exceeded", ctx.step, format!("op={kind}|work-clock"), format!("{flips} flips applied in {attempts} attempt(s) under a budget of {m} per attempt (result {}; reported flips_performed {:?})", out.class(), out.flips_performed)),
                );
            }
        }
        if out.kind != OutKind::Ok {
            return;
        }
        ctx.stats.evaluations += 1;
        if vertex_identity(pre) != vertex_identity(post) {
            push_violation(
                ctx.violations,
                violation("C08", "vertex-set-changed-by-repair", ctx.step, format!("op={kind}|vertex-set|heuristic={}|diff={}", out.used_heuristic, ids_diff_class(&vertex_identity(pre), &vertex_identity(post))), format!("vertices {} -> {}: {}", pre.verts.len(), post.verts.len(), ids_diff(&vertex_identity(pre), &vertex_identity(post)))),
            );
        }
        if crate::geom::embedded(pre, rv_pre) != crate::geom::Tri::Yes {
            ctx.stats.bump("c08.pre_state_not_a_geometric_triangulation");
            return;
        }
        match crate::geom::embedded(post, rv_post) {
            crate::geom::Tri::Yes => {}
            crate::geom::Tri::Undecided => return,
            crate::geom::Tri::No => {
                push_violation(
                    ctx.violations,
                    violation("C08", "invalid-after-repair", ctx.step, format!("op={kind}|kind={}", rv_post.first().map_or("geo-or-convexity", |x| x.kind)), format!("pre-state a valid geometric triangulation; after successful repair: {}; {}", first_violation(rv_post), lib_verdict(ctx))),
                );
                return;
            }
        }
        if post.cells.is_empty() {
            return;
        }
        let rd = refdt::check(post);
        ctx.stats.abstained += rd.abstained as u64;
        if out.predicate_failure_absorbed() {
            ctx.stats.bump("c08.delaunay_clause_not_judged_predicate_failure_absorbed");
        } else if !rd.violations.is_empty() {
            push_violation(
                ctx.violations,
                violation("C08", "not-delaunay-after-repair", ctx.step, format!("op={kind}|delaunay|heuristic={}|d={}|{}", out.used_heuristic, D, rd.violation_class()), format!("repair reported success but {} exact empty-circumsphere violations remain, e.g. {:x?} (local violations {}, locally violating facets {}, of which with a flat flip {})", rd.violations.len(), rd.violations[0], rd.local_violations, rd.local_facets, rd.local_facets_degenerate_flip)),
            );
        }
        // budget: with an explicit flip budget the reported flips never exceed it
        if let Some((_, k)) = ctx.oprec.knobs.iter().find(|(n, _)| n == "repair.max_flips")
            && let Some(f) = out.flips_performed
            && f > *k
            && !out.used_heuristic
        {
            push_violation(
                ctx.violations,
                violation("C08", "flip-budget-exceeded", ctx.step, format!("op={kind}|budget"), format!("flips_performed={f} > budget {k}")),
            );
        }
    }

    #[allow(clippy::too_many_lines)]
    fn check_c07<K: SimKernel<D>, const D: usize>(
        &self,
        ctx: &mut StepCtx<'_, K, D>,
        kind: &str,
        pre: &Snap,
        rv_pre: &Report,
        out: &Outcome,
        post: &Snap,
        after: &crate::snap::Dt<K, D>,
    ) {
        if out.kind != OutKind::Ok {
            return;
        }
        let Some(info) = out.flip.clone() else { return };
        ctx.stats.evaluations += 1;
        let d = D;
        let mut fail = |ctx: &mut StepCtx<'_, K, D>, clause: &str, detail: String| {
            push_violation(ctx.violations, violation("C07", clause, ctx.step, format!("op={kind}|k={}|{clause}", info.k), detail));
        };
        // L1 + L2 preserved
        let mut r2 = Report::default();
        refval::level1(post, &mut r2);
        if r2.ok() {
            refval::level2(post, &mut r2);
        }
        if rv_pre.ok_upto(2) && !r2.ok() {
            fail(ctx, "structure-broken", first_violation(&r2));
            return;
        }
        if !rv_pre.ok_upto(2) {
            return;
        }
        // cell count delta
        let k = info.k as i64;
        let expect_delta = (d as i64 + 2 - k) - k;
        let delta = post.cells.len() as i64 - pre.cells.len() as i64;
        if delta != expect_delta {
            fail(ctx, "cell-count-delta", format!("k={k}: cells {} -> {} (expected delta {expect_delta})", pre.cells.len(), post.cells.len()));
        }
        // vertex set
        let k1_forward = info.inserted_face.len() == 1 && info.removed_cells.len() == 1;
        let k1_inverse = info.removed_face.len() == 1 && info.new_cells.len() == 1;
        let pre_ids = vertex_identity(pre);
        let post_ids = vertex_identity(post);
        if k1_forward {
            if post_ids.len() != pre_ids.len() + 1 || !pre_ids.iter().all(|(u, v)| post_ids.get(u) == Some(v)) {
                fail(ctx, "vertex-set", format!("k=1 insert: vertices {} -> {}", pre_ids.len(), post_ids.len()));
            }
        } else if k1_inverse {
            if post_ids.len() + 1 != pre_ids.len() || !post_ids.iter().all(|(u, v)| pre_ids.get(u) == Some(v)) {
                fail(ctx, "vertex-set", format!("k=1 remove: vertices {} -> {}", pre_ids.len(), post_ids.len()));
            }
        } else if pre_ids != post_ids {
            fail(ctx, "vertex-set", "vertex set changed by a k>=2 flip".into());
        }
        // combinatorial manifold invariants unchanged (when they held before)
        let mut l3pre = Report::default();
        refval::level3(pre, Strength::Pseudomanifold, false, &mut l3pre);
        let mut l3post = Report::default();
        refval::level3(post, Strength::Pseudomanifold, false, &mut l3post);
        let topo = |r: &Report| -> Vec<&'static str> {
            r.violations.iter().map(|v| v.kind).filter(|k| !matches!(*k, "flat-cell" | "inverted-cell")).collect()
        };
        if topo(&l3pre).is_empty() && !topo(&l3post).is_empty() {
            fail(ctx, "manifold-invariant-broken", format!("after flip: {:?} (chi {:?} -> {:?})", topo(&l3post), l3pre.euler, l3post.euler));
        }
        if !(k1_forward || k1_inverse) && boundary_uuid_sets(pre) != boundary_uuid_sets(post) && topo(&l3pre).is_empty() {
            fail(ctx, "boundary-changed", "boundary facet set changed by a k>=2 flip".into());
        }
        // result description
        let post_cells: BTreeMap<u64, &crate::snap::SCell> = post.cells.iter().map(|c| (c.key, c)).collect();
        let pre_cells: BTreeMap<u64, &crate::snap::SCell> = pre.cells.iter().map(|c| (c.key, c)).collect();
        let rf: BTreeSet<u64> = info.removed_face.iter().copied().collect();
        let inf: BTreeSet<u64> = info.inserted_face.iter().copied().collect();
        let containing: BTreeSet<u64> = pre
            .cells
            .iter()
            .filter(|c| rf.iter().all(|v| c.verts.contains(v)))
            .map(|c| c.key)
            .collect();
        let removed: BTreeSet<u64> = info.removed_cells.iter().copied().collect();
        if removed != containing && !k1_forward {
            fail(ctx, "removed-cells-description", format!("info.removed_cells {:x?} != cells containing the removed face {:x?}", removed, containing));
        }
        if removed.iter().any(|c| post_cells.contains_key(c) && !pre_cells.is_empty() && {
            // a reused slot would carry a different version, so key equality means the cell survived
            true
        }) {
            fail(ctx, "removed-cells-still-live", format!("{:x?}", removed));
        }
        let mut expected_new: BTreeSet<Vec<u64>> = BTreeSet::new();
        for x in &rf {
            let mut t: Vec<u64> = inf.iter().copied().chain(rf.iter().copied().filter(|y| y != x)).collect();
            t.sort_unstable();
            expected_new.insert(t);
        }
        let mut actual_new: BTreeSet<Vec<u64>> = BTreeSet::new();
        let mut missing = false;
        for c in &info.new_cells {
            match post_cells.get(c) {
                Some(cell) => {
                    let mut t = cell.verts.clone();
                    t.sort_unstable();
                    actual_new.insert(t);
                }
                None => missing = true,
            }
        }
        if missing || actual_new != expected_new {
            fail(ctx, "new-cells-description", format!("info.new_cells vertex sets {:x?} != expected {:x?} (missing live cell: {missing})", actual_new, expected_new));
        }
        // the created cells are exactly the cells containing the inserted face
        let star: BTreeSet<u64> = post.cells.iter().filter(|c| inf.iter().all(|v| c.verts.contains(v))).map(|c| c.key).collect();
        let newset: BTreeSet<u64> = info.new_cells.iter().copied().collect();
        if star != newset {
            fail(ctx, "inserted-face-star-differs-from-new-cells", format!("star of the inserted face has {} cells {:x?}, info.new_cells lists {} {:x?}", star.len(), star, newset.len(), newset));
        }
        // exact inverse: apply the inverse move to the created face on a clone
        let geo_fine = {
            let mut g = Report::default();
            refval::level3(pre, Strength::Pseudomanifold, false, &mut g);
            g.geo_positive == Some(true)
        };
        let obj = ctx.oprec.op.obj().unwrap_or(0);
        let mut clone = after.clone();
        let k2u = post.key_to_uuid();
        let uu = |k: &u64| Hex128(k2u.get(k).copied().unwrap_or(0));
        let first_new = info.new_cells.first().and_then(|c| post_cells.get(c)).map(|c| (*c).clone());
        let m = inf.len();
        let inv: Option<Op> = if m == 1 {
            Some(Op::FlipK1Remove { obj, v: VRef::Uuid(uu(inf.iter().next().expect("one"))) })
        } else if m == d + 1 {
            // inverse of a vertex collapse: re-insert the removed vertex into the single new cell
            let rv = pre.verts.iter().find(|v| Some(&v.key) == rf.iter().next());
            match (rv, &first_new) {
                (Some(v), Some(c)) => Some(Op::FlipK1Insert {
                    obj,
                    cell: CRef::Verts(c.verts.iter().map(&uu).collect()),
                    v: VSpec::new(&v.coords, v.uuid, v.data),
                }),
                _ => None,
            }
        } else if m == d {
            first_new.as_ref().and_then(|c| {
                let idx = c.verts.iter().position(|v| !inf.contains(v))?;
                Some(Op::FlipK2 { obj, cell: CRef::Verts(c.verts.iter().map(&uu).collect()), facet: idx as u8 })
            })
        } else if m + 1 == d {
            first_new.as_ref().and_then(|c| {
                let om: Vec<usize> = c.verts.iter().enumerate().filter(|(_, v)| !inf.contains(v)).map(|(i, _)| i).collect();
                if om.len() != 2 {
                    return None;
                }
                Some(Op::FlipK3 { obj, cell: CRef::Verts(c.verts.iter().map(&uu).collect()), omit_a: om[0] as u8, omit_b: om[1] as u8 })
            })
        } else if m == 2 {
            let v: Vec<&u64> = inf.iter().collect();
            Some(Op::FlipK2Inv { obj, a: VRef::Uuid(uu(v[0])), b: VRef::Uuid(uu(v[1])) })
        } else if m == 3 {
            let v: Vec<&u64> = inf.iter().collect();
            Some(Op::FlipK3Inv { obj, a: VRef::Uuid(uu(v[0])), b: VRef::Uuid(uu(v[1])), c: VRef::Uuid(uu(v[2])) })
        } else {
            None
        };
        let Some(inv) = inv else { return };
        // make sure handles resolve (they are symbolic, so they should)
        let _ = (resolve_cref::<K, D>, resolve_vref::<K, D>);
        let mut plan = ctx.plan(&[]);
        plan.uuid_seed = crate::rng::derive(ctx.header.run_seed, "uuid-inverse", ctx.oprec.idx);
        let iout = run_mutator(&mut clone, &plan, &inv);
        ctx.stats.executions += 1;
        ctx.stats.evaluations += 1;
        match iout.kind {
            OutKind::Ok => {
                let back = Snap::of(&clone);
                let a = pre.canonical();
                let b = back.canonical();
                if a.cells != b.cells || a.verts != b.verts {
                    fail(ctx, "inverse-does-not-restore", format!("{} then {}: cells {} -> {} -> {}, canonical cell sets differ", kind, inv.kind(), pre.cells.len(), post.cells.len(), back.cells.len()));
                }
            }
            OutKind::Err if geo_fine => {
                fail(ctx, "inverse-rejected", format!("{} succeeded on a geometrically valid state but its inverse {} was refused: {} {}", kind, inv.kind(), iout.class(), iout.detail));
            }
            _ => {}
        }
    }
}

impl<K: SimKernel<D>, const D: usize> Monitor<K, D> for Valid {
    fn after(&mut self, ctx: &mut StepCtx<'_, K, D>, pre: Option<&Snap>, out: &Outcome, post: Option<&Snap>) {
        let (Some(pre), Some(post)) = (pre, post) else { return };
        if matches!(out.kind, OutKind::Unresolved | OutKind::Panic) {
            return;
        }
        let op = ctx.oprec.op.clone();
        let rv_pre = refval::validate(pre, strength_of(pre), false);
        let rv_post = refval::validate(post, strength_of(post), false);
        ctx.stats.abstained += rv_post.abstained as u64;
        match &op {
            Op::Insert { v, .. } if self.c02 => self.check_c02(ctx, pre, &rv_pre, out, post, &rv_post, v),
            Op::Remove { uuid, .. } if self.c06 => self.check_c06(ctx, pre, &rv_pre, out, post, &rv_post, uuid.0),
            Op::Repair { .. } | Op::RepairAdv { .. } if self.c08 => self.check_c08(ctx, pre, &rv_pre, out, post, &rv_post),
            Op::FlipK1Insert { .. }
            | Op::FlipK1Remove { .. }
            | Op::FlipK2 { .. }
            | Op::FlipK3 { .. }
            | Op::FlipK2Inv { .. }
            | Op::FlipK3Inv { .. }
                if self.c07 =>
            {
                if let Some(dt_after) = op.obj().and_then(|o| ctx.world.objs.get(o)).and_then(|o| o.as_ref()).cloned() {
                    self.check_c07(ctx, op.kind(), pre, &rv_pre, out, post, &dt_after);
                }
            }
            _ => {}
        }
        if self.c07 {
            self.sweep_c07(ctx, post);
        }
        if self.c02 || self.c06 || self.c08 {
            self.sweep_branches(ctx, post, &rv_post);
        }
    }
}

impl Valid {
    /// Branching exploration: from the state just reached, try on clones what the history did not
    /// - every vertex removed (C06), both manual repairs (C08) - and judge each like a history step.
    fn sweep_branches<K: SimKernel<D>, const D: usize>(&self, ctx: &mut StepCtx<'_, K, D>, cur: &Snap, rv_cur: &Report) {
        let Some(obj) = (match &ctx.oprec.op {
            Op::CloneTo { target, .. } | Op::SaveLoad { target, .. } => Some(*target),
            op => op.obj(),
        }) else {
            return;
        };
        let mut rng = crate::rng::Rng::sub(ctx.header.run_seed, "branches", ctx.oprec.idx);
        if cur.verts.is_empty() || !rng.chance(1, 2) {
            return;
        }
        let Some(base) = ctx.world.objs.get(obj).and_then(|o| o.as_ref()).cloned() else { return };
        let mut ops: Vec<Op> = Vec::new();
        if self.c06 {
            let mut vs: Vec<u128> = cur.verts.iter().map(|v| v.uuid).collect();
            rng.shuffle(&mut vs);
            vs.truncate(if ctx.thorough { 24 } else { 8 });
            ops.extend(vs.into_iter().map(|u| Op::Remove { obj, uuid: Hex128(u) }));
        }
        if self.c02 {
            // pool points of this run (same pool as the generator's) that are not present yet
            let maxv = crate::generate::max_vertices(D, ctx.thorough);
            let pool = crate::generate::make_pool(&ctx.header.family, D, ctx.header.run_seed, maxv * 3 + 8);
            let mut fresh: Vec<&Vec<f64>> = pool.iter().filter(|p| !cur.verts.iter().any(|v| crate::snap::coords_bits_eq(&v.coords, p))).collect();
            rng.shuffle(&mut fresh);
            for p in fresh.into_iter().take(if ctx.thorough { 8 } else { 4 }) {
                let data = if rng.chance(1, 2) { Some(rng.range_i64(-1000, 1000) as i32) } else { None };
                ops.push(Op::Insert { obj, v: VSpec::new(p, rng.uuid128(), data), stats: rng.chance(1, 2) });
            }
        }
        if self.c08 && !cur.cells.is_empty() {
            ops.push(Op::Repair { obj });
            ops.push(Op::RepairAdv { obj, seeds: None });
        }
        for (i, op) in ops.iter().enumerate() {
            let mut c = base.clone();
            let mut plan = ctx.plan(&[]);
            plan.uuid_seed = crate::rng::derive(crate::rng::derive(ctx.header.run_seed, "branch-uuid", ctx.oprec.idx), "i", i as u64);
            let n_before = ctx.violations.len();
            let o = run_mutator(&mut c, &plan, op);
            let o = self.judge_branch(ctx, cur, rv_cur, op, o, &c);
            // the library's own verdict quoted by the checks refers to the world object; say what it is for the branch
            if ctx.violations.len() > n_before {
                let verdict = match c.as_triangulation().validate() {
                    Ok(()) => "Ok".to_string(),
                    Err(e) => format!("Err({e})"),
                };
                if let Ok(path) = std::env::var("DELSIM_DUMP_BRANCH") {
                    // debugging aid only (never set by the checks): the branch result and its origin
                    let _ = std::fs::write(&path, serde_json::to_string(&(cur, Snap::of(&c))).unwrap_or_default());
                }
                for v in &mut ctx.violations[n_before..] {
                    v.detail = format!("[branch from the state after step {}: {}; library validate() on the branch result = {verdict}] {}", ctx.step, serde_json::to_string(op).unwrap_or_default(), v.detail);
                }
            }
            let _ = o;
        }
    }

    fn judge_branch<K: SimKernel<D>, const D: usize>(&self, ctx: &mut StepCtx<'_, K, D>, cur: &Snap, rv_cur: &Report, op: &Op, o: Outcome, c: &crate::snap::Dt<K, D>) -> Outcome {
        ctx.stats.executions += 1;
        *ctx.stats.outcome_classes.entry(format!("branch:{}:{}", op.kind(), o.class())).or_insert(0) += 1;
        if let Op::Insert { v, .. } = op {
            // insertions are judged whatever their outcome (failed ones must change nothing)
            if !matches!(o.kind, OutKind::Unresolved | OutKind::Panic) {
                let post = Snap::of(c);
                let rv_post = refval::validate(&post, strength_of(&post), false);
                self.check_c02_as(ctx, op.kind(), cur, rv_cur, &o, &post, &rv_post, v);
            }
            return o;
        }
        if o.kind != OutKind::Ok {
            return o;
        }
        let post = Snap::of(c);
        let rv_post = refval::validate(&post, strength_of(&post), false);
        match op {
            Op::Remove { uuid, .. } => self.check_c06(ctx, cur, rv_cur, &o, &post, &rv_post, uuid.0),
            _ => self.check_c08_as(ctx, op.kind(), cur, rv_cur, &o, &post, &rv_post),
        }
        o
    }
}

impl Valid {
    /// Exhaustive-ish handle sweep: every facet, ridge, edge, triangle and vertex handle of the
    /// current complex (sampled above a cap) is flipped on a clone and checked like a history flip.
    fn sweep_c07<K: SimKernel<D>, const D: usize>(&self, ctx: &mut StepCtx<'_, K, D>, cur: &Snap) {
        let Some(obj) = (match &ctx.oprec.op {
            Op::CloneTo { target, .. } | Op::SaveLoad { target, .. } => Some(*target),
            op => op.obj(),
        }) else {
            return;
        };
        let mut rng = crate::rng::Rng::sub(ctx.header.run_seed, "sweep", ctx.oprec.idx);
        if cur.cells.is_empty() || !rng.chance(if D >= 4 { 2 } else { 1 }, 3) {
            return;
        }
        let Some(mut base) = ctx.world.objs.get(obj).and_then(|o| o.as_ref()).cloned() else { return };
        // flip-graph random walk: sweep the neighbourhood of the current state, step to one of the
        // successful neighbours, sweep again (deep Edit-API histories that the op list need not spell out)
        let walk = if D >= 4 { 4 } else { 2 };
        let mut cur_owned = cur.clone();
        for depth in 0..=walk {
            let Some(next) = self.sweep_once(ctx, &mut rng, obj, &base, &cur_owned, depth) else { break };
            cur_owned = Snap::of(&next);
            base = next;
            ctx.stats.bump("c07.walk_steps");
        }
    }

    fn sweep_once<K: SimKernel<D>, const D: usize>(
        &self,
        ctx: &mut StepCtx<'_, K, D>,
        rng: &mut crate::rng::Rng,
        obj: usize,
        base: &crate::snap::Dt<K, D>,
        cur: &Snap,
        depth: u64,
    ) -> Option<crate::snap::Dt<K, D>> {
        let rv = refval::validate(cur, strength_of(cur), false);
        if !rv.ok_upto(2) || cur.cells.is_empty() {
            return None;
        }
        let k2u = cur.key_to_uuid();
        let u = |k: &u64| Hex128(k2u.get(k).copied().unwrap_or(0));
        let mut ops: Vec<Op> = Vec::new();
        let mut edges: BTreeSet<(u64, u64)> = BTreeSet::new();
        let mut tris: BTreeSet<(u64, u64, u64)> = BTreeSet::new();
        for c in &cur.cells {
            let cref = CRef::Verts(c.verts.iter().map(&u).collect());
            let n = c.verts.len();
            for i in 0..n {
                ops.push(Op::FlipK2 { obj, cell: cref.clone(), facet: i as u8 });
                for j in i + 1..n {
                    if D >= 3 {
                        ops.push(Op::FlipK3 { obj, cell: cref.clone(), omit_a: i as u8, omit_b: j as u8 });
                    }
                    let (a, b) = (c.verts[i].min(c.verts[j]), c.verts[i].max(c.verts[j]));
                    edges.insert((a, b));
                    for l in j + 1..n {
                        let mut t = [c.verts[i], c.verts[j], c.verts[l]];
                        t.sort_unstable();
                        tris.insert((t[0], t[1], t[2]));
                    }
                }
            }
        }
        if D >= 3 {
            for (a, b) in &edges {
                ops.push(Op::FlipK2Inv { obj, a: VRef::Uuid(u(a)), b: VRef::Uuid(u(b)) });
            }
        }
        if D >= 4 {
            for (a, b, c) in &tris {
                ops.push(Op::FlipK3Inv { obj, a: VRef::Uuid(u(a)), b: VRef::Uuid(u(b)), c: VRef::Uuid(u(c)) });
            }
        }
        for v in &cur.verts {
            ops.push(Op::FlipK1Remove { obj, v: VRef::Uuid(Hex128(v.uuid)) });
        }
        let cap = if ctx.thorough { 240 } else { 70 };
        if ops.len() > cap {
            rng.shuffle(&mut ops);
            ops.truncate(cap);
            ctx.stats.bump("c07.sweeps_sampled");
        } else {
            ctx.stats.bump("c07.sweeps_exhaustive");
        }
        let mut chosen: Option<crate::snap::Dt<K, D>> = None;
        let mut n_ok = 0u64;
        for (i, op) in ops.iter().enumerate() {
            let mut c = base.clone();
            let mut plan = ctx.plan(&[]);
            plan.uuid_seed = crate::rng::derive(crate::rng::derive(ctx.header.run_seed, "sweep-uuid", ctx.oprec.idx), "walk", depth * 4096 + i as u64);
            let o = run_mutator(&mut c, &plan, op);
            ctx.stats.executions += 1;
            *ctx.stats.outcome_classes.entry(format!("sweep:{}:{}", op.kind(), o.class())).or_insert(0) += 1;
            match o.kind {
                OutKind::Ok => {
                    let post = Snap::of(&c);
                    self.check_c07(ctx, op.kind(), cur, &rv, &o, &post, &c);
                    // reservoir-sample the next walk state among the successful neighbours
                    n_ok += 1;
                    if rng.below(n_ok) == 0 {
                        chosen = Some(c);
                    }
                }
                OutKind::Err => {
                    if let Some(d) = cur.diff(&Snap::of(&c)) {
                        push_violation(ctx.violations, violation("C07", "refused-flip-changed-state", ctx.step, format!("op={}|result={}", op.kind(), o.class()), d));
                    }
                }
                _ => {}
            }
        }
        chosen
    }
}
