//! C13 — serialisation round trip, through a simulator-owned stream seam.
//!
//! `Write`/`Read` implementations owned by the simulator inject: short writes/reads and
//! `Interrupted` (benign: result must still be Ok and equal), hard I/O errors and truncation at
//! byte k (result must be Err, never a panic, never a half-built object), and "disk" corruption
//! between save and load (bit flips, digit/hex substitutions, JSON-level edits: swapped,
//! dropped, duplicated entries) after which the load must fail or yield a structurally
//! consistent complex.

use crate::exec::{run_mutator, OutKind, Outcome, SimKernel};
use crate::geom::{self, Tri};
use crate::history::{Monitor, StepCtx};
use crate::ops::{Hex128, Op, VSpec};
use crate::refdt;
use crate::refval;
use crate::rng::Rng;
use crate::run::{push_violation, violation};
use crate::snap::{Dt, Snap, U, V};
use delaunay::core::triangulation_data_structure::Tds;
use std::io::{self, Read, Write};

pub struct C13 {
    pub thorough: bool,
}

#[derive(Clone, Debug, Default)]
struct WPlan {
    max_chunk: Option<usize>,
    interrupt_every: Option<usize>,
    fail_at: Option<usize>,
    zero_at: Option<usize>,
    flush_fail: bool,
}

struct FaultyWriter {
    buf: Vec<u8>,
    plan: WPlan,
    calls: usize,
    fired: Vec<&'static str>,
}

impl Write for FaultyWriter {
    fn write(&mut self, data: &[u8]) -> io::Result<usize> {
        self.calls += 1;
        if let Some(n) = self.plan.interrupt_every
            && self.calls % n == 0
        {
            self.fired.push("write-interrupted");
            return Err(io::Error::from(io::ErrorKind::Interrupted));
        }
        if let Some(at) = self.plan.fail_at
            && self.buf.len() + data.len() > at
        {
            self.fired.push("write-error");
            return Err(io::Error::other("simulated disk error"));
        }
        if let Some(at) = self.plan.zero_at
            && self.buf.len() >= at
        {
            self.fired.push("write-zero");
            return Ok(0);
        }
        let n = self.plan.max_chunk.map_or(data.len(), |c| c.min(data.len())).max(usize::from(!data.is_empty()));
        if n < data.len() {
            self.fired.push("short-write");
        }
        self.buf.extend_from_slice(&data[..n]);
        Ok(n)
    }
    fn flush(&mut self) -> io::Result<()> {
        if self.plan.flush_fail {
            self.fired.push("flush-error");
            return Err(io::Error::other("simulated flush error"));
        }
        Ok(())
    }
}

#[derive(Clone, Debug, Default)]
struct RPlan {
    max_chunk: Option<usize>,
    interrupt_every: Option<usize>,
    fail_at: Option<usize>,
}

struct FaultyReader<'a> {
    data: &'a [u8],
    pos: usize,
    plan: RPlan,
    calls: usize,
    fired: Vec<&'static str>,
}

impl Read for FaultyReader<'_> {
    fn read(&mut self, out: &mut [u8]) -> io::Result<usize> {
        self.calls += 1;
        if let Some(n) = self.plan.interrupt_every
            && self.calls % n == 0
        {
            self.fired.push("read-interrupted");
            return Err(io::Error::from(io::ErrorKind::Interrupted));
        }
        if let Some(at) = self.plan.fail_at
            && self.pos >= at
        {
            self.fired.push("read-error");
            return Err(io::Error::other("simulated read error"));
        }
        let remaining = self.data.len() - self.pos;
        let mut n = remaining.min(out.len());
        if let Some(c) = self.plan.max_chunk {
            if c < n {
                self.fired.push("short-read");
            }
            n = n.min(c.max(1));
        }
        if let Some(at) = self.plan.fail_at {
            n = n.min(at.saturating_sub(self.pos).max(1));
        }
        out[..n].copy_from_slice(&self.data[self.pos..self.pos + n]);
        self.pos += n;
        Ok(n)
    }
}

fn save_with<K: SimKernel<D>, const D: usize>(dt: &Dt<K, D>, plan: WPlan) -> (Result<Vec<u8>, String>, Vec<&'static str>) {
    let mut w = FaultyWriter { buf: Vec::new(), plan, calls: 0, fired: Vec::new() };
    let r = serde_json::to_writer(&mut w, dt).map_err(|e| e.to_string()).and_then(|()| w.flush().map_err(|e| e.to_string()));
    let fired = std::mem::take(&mut w.fired);
    (r.map(|()| w.buf), fired)
}

fn load_with<K: SimKernel<D>, const D: usize>(bytes: &[u8], plan: RPlan, like: &Dt<K, D>) -> (Result<Dt<K, D>, String>, Vec<&'static str>) {
    load_impl(bytes, plan, like, true)
}

/// Load without touching any policy setter (used for corrupted documents, whose result may be
/// an invalid complex on which the setters' debug assertions would fire).
fn load_raw<K: SimKernel<D>, const D: usize>(bytes: &[u8], like: &Dt<K, D>) -> (Result<Dt<K, D>, String>, Vec<&'static str>) {
    load_impl(bytes, RPlan::default(), like, false)
}

fn load_impl<K: SimKernel<D>, const D: usize>(bytes: &[u8], plan: RPlan, like: &Dt<K, D>, policies: bool) -> (Result<Dt<K, D>, String>, Vec<&'static str>) {
    let mut r = FaultyReader { data: bytes, pos: 0, plan, calls: 0, fired: Vec::new() };
    let res: Result<Tds<f64, U, V, D>, String> = serde_json::from_reader(&mut r).map_err(|e| e.to_string());
    let fired = std::mem::take(&mut r.fired);
    (
        res.map(|tds| {
            let mut dt = Dt::<K, D>::from_tds_with_topology_guarantee(tds, K::default(), like.topology_guarantee());
            if policies {
                dt.set_delaunay_repair_policy(like.delaunay_repair_policy());
                dt.set_delaunay_check_policy(like.delaunay_check_policy());
            }
            dt
        }),
        fired,
    )
}

fn guarded<T>(f: impl FnOnce() -> T) -> Result<T, String> {
    std::panic::catch_unwind(std::panic::AssertUnwindSafe(f)).map_err(|p| {
        p.downcast_ref::<String>().cloned().or_else(|| p.downcast_ref::<&str>().map(|s| (*s).to_string())).unwrap_or_else(|| "panic".into())
    })
}

fn verdicts<K: SimKernel<D>, const D: usize>(dt: &Dt<K, D>) -> Vec<bool> {
    vec![
        dt.tds().is_valid().is_ok(),
        dt.tds().validate().is_ok(),
        dt.as_triangulation().is_valid().is_ok(),
        dt.as_triangulation().validate().is_ok(),
        dt.is_valid().is_ok(),
        dt.validate().is_ok(),
    ]
}

fn structurally_consistent(s: &Snap) -> Option<String> {
    let mut rep = refval::Report::default();
    refval::level1(s, &mut rep);
    if rep.ok() {
        refval::level2(s, &mut rep);
    }
    rep.first().map(|v| format!("L{} {}: {}", v.level, v.kind, v.detail))
}

/// (first violated kind, whether some facet is shared by more than two cells) of a loaded complex.
/// The unchanged loader's neighbour rebuild refuses every over-shared facet, so `overshared=yes`
/// never belongs to the recorded "no validation on load" finding.
fn inconsistency_class(s: &Snap) -> String {
    let mut rep = refval::Report::default();
    refval::level1(s, &mut rep);
    if rep.ok() {
        refval::level2(s, &mut rep);
    }
    let first = rep.first().map_or("none", |v| v.kind);
    let over = rep.violations.iter().any(|v| v.kind == "facet-overshared");
    format!("kind={first}|overshared={}", if over { "yes" } else { "no" })
}


/// Layout-agnostic single-field corruptions: a value transplanted from elsewhere in the document
/// (UUID over UUID, number over number), an array element duplicated / dropped / swapped, a value
/// nulled - anywhere in the JSON tree. The label carries the top-level section it happened in.
fn generic_json_corruptions(doc: &serde_json::Value, rng: &mut Rng, n: usize) -> Vec<(String, Vec<u8>)> {
    use serde_json::Value;
    #[derive(Clone)]
    enum Step {
        Key(String),
        Idx(usize),
    }
    fn walk(v: &Value, path: &mut Vec<Step>, uuids: &mut Vec<Vec<Step>>, nums: &mut Vec<Vec<Step>>, arrays: &mut Vec<Vec<Step>>, leaves: &mut Vec<Vec<Step>>) {
        match v {
            Value::Object(o) => {
                for (k, x) in o {
                    path.push(Step::Key(k.clone()));
                    walk(x, path, uuids, nums, arrays, leaves);
                    path.pop();
                }
            }
            Value::Array(a) => {
                if !a.is_empty() {
                    arrays.push(path.clone());
                }
                for (i, x) in a.iter().enumerate() {
                    path.push(Step::Idx(i));
                    walk(x, path, uuids, nums, arrays, leaves);
                    path.pop();
                }
            }
            Value::String(st) => {
                if st.len() == 36 && st.as_bytes()[8] == b'-' {
                    uuids.push(path.clone());
                }
                leaves.push(path.clone());
            }
            Value::Number(_) => {
                nums.push(path.clone());
                leaves.push(path.clone());
            }
            _ => leaves.push(path.clone()),
        }
    }
    fn get<'a>(v: &'a Value, path: &[Step]) -> Option<&'a Value> {
        let mut cur = v;
        for s in path {
            cur = match s {
                Step::Key(k) => cur.get(k)?,
                Step::Idx(i) => cur.get(*i)?,
            };
        }
        Some(cur)
    }
    fn get_mut<'a>(v: &'a mut Value, path: &[Step]) -> Option<&'a mut Value> {
        let mut cur = v;
        for s in path {
            cur = match s {
                Step::Key(k) => cur.get_mut(k)?,
                Step::Idx(i) => cur.get_mut(*i)?,
            };
        }
        Some(cur)
    }
    let section = |path: &[Step]| -> String {
        match path.first() {
            Some(Step::Key(k)) => k.clone(),
            _ => "root".into(),
        }
    };
    let (mut uuids, mut nums, mut arrays, mut leaves) = (Vec::new(), Vec::new(), Vec::new(), Vec::new());
    walk(doc, &mut Vec::new(), &mut uuids, &mut nums, &mut arrays, &mut leaves);
    let mut out = Vec::new();
    for _ in 0..n {
        let mut d = doc.clone();
        let label: String;
        match rng.below(7) {
            0 | 1 if uuids.len() >= 2 => {
                let a = rng.pick(&uuids).clone();
                let b = rng.pick(&uuids).clone();
                let Some(vb) = get(doc, &b).cloned() else { continue };
                label = format!("transplant-uuid@{}", section(&a));
                if let Some(x) = get_mut(&mut d, &a) {
                    *x = vb;
                }
            }
            2 if nums.len() >= 2 => {
                let a = rng.pick(&nums).clone();
                let b = rng.pick(&nums).clone();
                let Some(vb) = get(doc, &b).cloned() else { continue };
                label = format!("transplant-number@{}", section(&a));
                if let Some(x) = get_mut(&mut d, &a) {
                    *x = vb;
                }
            }
            3 | 4 if !arrays.is_empty() => {
                let a = rng.pick(&arrays).clone();
                let Some(Value::Array(arr)) = get_mut(&mut d, &a) else { continue };
                let i = rng.usize_below(arr.len());
                if rng.chance(1, 2) || arr.len() < 2 {
                    label = format!("duplicate-array-element@{}", section(&a));
                    let e = arr[i].clone();
                    arr.insert(i, e);
                } else {
                    label = format!("overwrite-array-element-with-sibling@{}", section(&a));
                    let j = (i + 1 + rng.usize_below(arr.len() - 1)) % arr.len();
                    arr[j] = arr[i].clone();
                }
            }
            5 if !arrays.is_empty() => {
                let a = rng.pick(&arrays).clone();
                let Some(Value::Array(arr)) = get_mut(&mut d, &a) else { continue };
                let i = rng.usize_below(arr.len());
                if arr.len() >= 2 && rng.chance(1, 2) {
                    label = format!("swap-array-elements@{}", section(&a));
                    let j = (i + 1 + rng.usize_below(arr.len() - 1)) % arr.len();
                    arr.swap(i, j);
                } else {
                    label = format!("drop-array-element@{}", section(&a));
                    arr.remove(i);
                }
            }
            _ if !leaves.is_empty() => {
                let a = rng.pick(&leaves).clone();
                label = format!("null-value@{}", section(&a));
                if let Some(x) = get_mut(&mut d, &a) {
                    *x = Value::Null;
                }
            }
            _ => continue,
        }
        if d != *doc {
            out.push((label, serde_json::to_vec(&d).unwrap_or_default()));
        }
    }
    out
}

/// JSON-level single-field corruptions of a document.
fn json_corruptions(doc: &serde_json::Value, rng: &mut Rng, n: usize) -> Vec<(String, Vec<u8>)> {
    let mut out = Vec::new();
    for _ in 0..n {
        let mut d = doc.clone();
        let kind = rng.below(9);
        let label: &str;
        match kind {
            0 => {
                // swap two vertex uuids inside one cell_vertices entry (orientation parity)
                label = "swap-cell-vertex-order";
                if let Some(cv) = d.get_mut("cell_vertices").and_then(|x| x.as_object_mut()) {
                    let keys: Vec<String> = cv.keys().cloned().collect();
                    if !keys.is_empty() {
                        let k = &keys[rng.usize_below(keys.len())];
                        if let Some(arr) = cv.get_mut(k).and_then(|x| x.as_array_mut())
                            && arr.len() >= 2
                        {
                            let i = rng.usize_below(arr.len());
                            let j = (i + 1 + rng.usize_below(arr.len() - 1)) % arr.len();
                            arr.swap(i, j);
                        }
                    }
                }
            }
            1 => {
                label = "repeat-vertex-in-cell";
                if let Some(cv) = d.get_mut("cell_vertices").and_then(|x| x.as_object_mut()) {
                    let keys: Vec<String> = cv.keys().cloned().collect();
                    if !keys.is_empty() {
                        let k = &keys[rng.usize_below(keys.len())];
                        if let Some(arr) = cv.get_mut(k).and_then(|x| x.as_array_mut())
                            && arr.len() >= 2
                        {
                            let i = rng.usize_below(arr.len());
                            let j = (i + 1) % arr.len();
                            arr[j] = arr[i].clone();
                        }
                    }
                }
            }
            2 => {
                label = "drop-cell-vertices-entry";
                if let Some(cv) = d.get_mut("cell_vertices").and_then(|x| x.as_object_mut()) {
                    let keys: Vec<String> = cv.keys().cloned().collect();
                    if !keys.is_empty() {
                        cv.remove(&keys[rng.usize_below(keys.len())]);
                    }
                }
            }
            3 => {
                label = "shorten-cell-vertex-list";
                if let Some(cv) = d.get_mut("cell_vertices").and_then(|x| x.as_object_mut()) {
                    let keys: Vec<String> = cv.keys().cloned().collect();
                    if !keys.is_empty() {
                        let k = &keys[rng.usize_below(keys.len())];
                        if let Some(arr) = cv.get_mut(k).and_then(|x| x.as_array_mut()) {
                            arr.pop();
                        }
                    }
                }
            }
            4 => {
                // replace one vertex of a cell by another existing vertex not in it (non-manifold / duplicate cell)
                label = "retarget-cell-vertex";
                let all: Vec<serde_json::Value> = d
                    .get("cell_vertices")
                    .and_then(|x| x.as_object())
                    .map(|m| m.values().filter_map(|a| a.as_array()).flatten().cloned().collect())
                    .unwrap_or_default();
                if let Some(cv) = d.get_mut("cell_vertices").and_then(|x| x.as_object_mut()) {
                    let keys: Vec<String> = cv.keys().cloned().collect();
                    if !keys.is_empty() && !all.is_empty() {
                        let k = &keys[rng.usize_below(keys.len())];
                        if let Some(arr) = cv.get_mut(k).and_then(|x| x.as_array_mut())
                            && !arr.is_empty()
                        {
                            let i = rng.usize_below(arr.len());
                            arr[i] = all[rng.usize_below(all.len())].clone();
                        }
                    }
                }
            }
            5 => {
                label = "duplicate-cell-vertices-of-another-cell";
                if let Some(cv) = d.get_mut("cell_vertices").and_then(|x| x.as_object_mut()) {
                    let keys: Vec<String> = cv.keys().cloned().collect();
                    if keys.len() >= 2 {
                        let a = keys[rng.usize_below(keys.len())].clone();
                        let b = keys[rng.usize_below(keys.len())].clone();
                        if a != b
                            && let Some(v) = cv.get(&a).cloned()
                        {
                            cv.insert(b, v);
                        }
                    }
                }
            }
            6 => {
                label = "non-finite-or-null-coordinate";
                // textual: handled below by byte-level replacement of a number with 1e999 / null
                let text = serde_json::to_string(&d).unwrap_or_default();
                if let Some(pos) = text.find("\"point\"").or_else(|| text.find("[0.")).or_else(|| text.find('.')) {
                    let mut t = text.clone();
                    // replace the first number after pos
                    if let Some(off) = t[pos..].find(|c: char| c.is_ascii_digit()) {
                        let s = pos + off;
                        let e = s + t[s..].find(|c: char| !(c.is_ascii_digit() || c == '.' || c == 'e' || c == '-' || c == '+')).unwrap_or(1);
                        t.replace_range(s..e, if rng.chance(1, 2) { "1e999" } else { "null" });
                        out.push((label.to_string(), t.into_bytes()));
                        continue;
                    }
                }
            }
            7 => {
                label = "drop-top-level-field";
                if let Some(o) = d.as_object_mut() {
                    let keys: Vec<String> = o.keys().cloned().collect();
                    if !keys.is_empty() {
                        o.remove(&keys[rng.usize_below(keys.len())]);
                    }
                }
            }
            _ => {
                label = "unknown-vertex-uuid-in-cell";
                if let Some(cv) = d.get_mut("cell_vertices").and_then(|x| x.as_object_mut()) {
                    let keys: Vec<String> = cv.keys().cloned().collect();
                    if !keys.is_empty() {
                        let k = &keys[rng.usize_below(keys.len())];
                        if let Some(arr) = cv.get_mut(k).and_then(|x| x.as_array_mut())
                            && !arr.is_empty()
                        {
                            let i = rng.usize_below(arr.len());
                            arr[i] = serde_json::Value::String(uuid::Uuid::from_u128(rng.uuid128()).to_string());
                        }
                    }
                }
            }
        }
        if d != *doc {
            out.push((label.to_string(), serde_json::to_vec(&d).unwrap_or_default()));
        }
    }
    out
}

impl<K: SimKernel<D>, const D: usize> Monitor<K, D> for C13 {
    #[allow(clippy::too_many_lines)]
    fn after(&mut self, ctx: &mut StepCtx<'_, K, D>, _pre: Option<&Snap>, out: &Outcome, post: Option<&Snap>) {
        if matches!(out.kind, OutKind::Unresolved | OutKind::Panic) {
            return;
        }
        let slot = match &ctx.oprec.op {
            Op::CloneTo { target, .. } | Op::SaveLoad { target, .. } => Some(*target),
            op => op.obj(),
        };
        let (Some(slot), Some(post)) = (slot, post) else { return };
        let mut rng = Rng::sub(ctx.header.run_seed, "serde", ctx.oprec.idx);
        if !rng.chance(1, 3) {
            return;
        }
        let Some(dt) = ctx.world.objs.get(slot).and_then(|o| o.as_ref()).cloned() else { return };
        let kind = ctx.oprec.op.kind();
        let mut fail = |ctx: &mut StepCtx<'_, K, D>, clause: &str, sig: String, detail: String| {
            push_violation(ctx.violations, violation("C13", clause, ctx.step, format!("{sig}|after={kind}"), detail));
        };
        let count = |ctx: &mut StepCtx<'_, K, D>, fired: &[&'static str]| {
            for f in fired {
                *ctx.stats.faults_fired.entry((*f).to_string()).or_insert(0) += 1;
            }
        };

        // 1. fault-free round trip
        ctx.stats.evaluations += 1;
        let (saved, _) = match guarded(|| save_with(&dt, WPlan::default())) {
            Ok(x) => x,
            Err(p) => {
                fail(ctx, "serialize-panicked", "save".into(), p);
                return;
            }
        };
        let bytes = match saved {
            Ok(b) => b,
            Err(e) => {
                fail(ctx, "serialize-failed", "save".into(), format!("fault-free serialisation failed: {e}"));
                return;
            }
        };
        ctx.stats.add("c13.bytes_serialised", bytes.len() as u64);
        let (loaded, _) = match guarded(|| load_with::<K, D>(&bytes, RPlan::default(), &dt)) {
            Ok(x) => x,
            Err(p) => {
                fail(ctx, "deserialize-panicked", "load".into(), p);
                return;
            }
        };
        let loaded = match loaded {
            Ok(l) => l,
            Err(e) => {
                // a state the library itself would not accept may be refused
                if structurally_consistent(post).is_none() {
                    fail(ctx, "round-trip-load-failed", "load".into(), format!("deserialising what was just serialised failed: {e}"));
                }
                return;
            }
        };
        let lsnap = Snap::of(&loaded);
        if structurally_consistent(post).is_none() {
            if dt.tds() != loaded.tds() {
                fail(ctx, "round-trip-not-equal", "eq".into(), "deserialised Tds != original by PartialEq".into());
            }
            let (a, b) = (post.canonical(), lsnap.canonical());
            if a != b {
                let first = a.verts.iter().zip(&b.verts).find(|(x, y)| x != y).map(|(x, y)| format!("{:032x}: {:?}/{:?} vs {:?}/{:?}", x.0, x.1.iter().map(|v| f64::from_bits(*v)).collect::<Vec<_>>(), x.2, y.1.iter().map(|v| f64::from_bits(*v)).collect::<Vec<_>>(), y.2));
                fail(ctx, "round-trip-canonical-differs", "canonical".into(), format!("vertices {} vs {}, cells {} vs {}, adjacency {} vs {}; first differing vertex: {first:?}", a.verts.len(), b.verts.len(), a.cells.len(), b.cells.len(), a.adj.len(), b.adj.len()));
            }
            // vertex -> incident cell: a vertex that had a valid incident cell has one after the round trip
            // (the pointer is stored state the insertion path relies on; `None` reads as "isolated" there)
            {
                let valid_incident = |s: &Snap| -> std::collections::BTreeSet<u128> {
                    s.verts
                        .iter()
                        .filter(|v| v.incident.is_some_and(|c| s.cells.iter().any(|cell| cell.key == c && cell.verts.contains(&v.key))))
                        .map(|v| v.uuid)
                        .collect()
                };
                let (ia, ib) = (valid_incident(post), valid_incident(&lsnap));
                if let Some(u) = ia.difference(&ib).next() {
                    fail(ctx, "round-trip-incident-cell-lost", "incident".into(), format!("{} of {} vertices with a valid incident cell have none (or an invalid one) after the round trip, e.g. {u:032x}", ia.difference(&ib).count(), ia.len()));
                }
            }
            // cell uuid + data preserved
            let mut ca: Vec<(u128, Option<i32>)> = post.cells.iter().map(|c| (c.uuid, c.data)).collect();
            let mut cb: Vec<(u128, Option<i32>)> = lsnap.cells.iter().map(|c| (c.uuid, c.data)).collect();
            ca.sort_unstable();
            cb.sort_unstable();
            if ca != cb {
                fail(ctx, "round-trip-cell-identity", "cells".into(), "cell UUIDs/data differ after the round trip".into());
            }
            let (va, vb) = (verdicts(&dt), verdicts(&loaded));
            if va != vb {
                fail(ctx, "round-trip-validation-differs", "levels".into(), format!("validation verdicts per level {va:?} vs {vb:?}"));
            }
        }

        // 2. benign stream faults: still Ok and equal
        for _ in 0..2 {
            let wplan = WPlan { max_chunk: Some(1 + rng.usize_below(7)), interrupt_every: Some(2 + rng.usize_below(5)), ..WPlan::default() };
            let rplan = RPlan { max_chunk: Some(1 + rng.usize_below(5)), interrupt_every: Some(2 + rng.usize_below(5)), fail_at: None };
            ctx.stats.evaluations += 1;
            match guarded(|| save_with(&dt, wplan.clone())) {
                Ok((Ok(b2), fired)) => {
                    count(ctx, &fired);
                    if b2 != bytes {
                        fail(ctx, "benign-write-faults-change-bytes", "short-write".into(), "bytes differ under short writes / EINTR".into());
                    }
                    match guarded(|| load_with::<K, D>(&b2, rplan.clone(), &dt)) {
                        Ok((Ok(l2), fired)) => {
                            count(ctx, &fired);
                            if Snap::of(&l2).canonical() != lsnap.canonical() {
                                fail(ctx, "benign-read-faults-change-result", "short-read".into(), "result differs under short reads / EINTR".into());
                            }
                        }
                        Ok((Err(e), fired)) => {
                            count(ctx, &fired);
                            fail(ctx, "benign-read-faults-fail", "short-read".into(), format!("load failed under short reads / EINTR only: {e}"));
                        }
                        Err(p) => fail(ctx, "deserialize-panicked", "short-read".into(), p),
                    }
                }
                Ok((Err(e), fired)) => {
                    count(ctx, &fired);
                    fail(ctx, "benign-write-faults-fail", "short-write".into(), format!("save failed under short writes / EINTR only: {e}"));
                }
                Err(p) => fail(ctx, "serialize-panicked", "short-write".into(), p),
            }
        }

        // 3. hard stream errors and truncation at byte k: Err, never a panic
        let exhaustive = bytes.len() <= if self.thorough { 6000 } else { 1500 };
        let offsets: Vec<usize> = if exhaustive {
            ctx.stats.bump("c13.documents_with_exhaustive_offsets");
            (0..bytes.len()).collect()
        } else {
            ctx.stats.bump("c13.documents_with_sampled_offsets");
            let mut v: Vec<usize> = (0..96).map(|_| rng.usize_below(bytes.len())).collect();
            v.extend([0, 1, bytes.len() - 1, bytes.len() / 2]);
            v
        };
        for &k in &offsets {
            ctx.stats.evaluations += 1;
            // truncated document (torn write / lost tail)
            match guarded(|| load_raw::<K, D>(&bytes[..k], &dt)) {
                Ok((Ok(t), _)) => {
                    *ctx.stats.faults_fired.entry("truncation".into()).or_insert(0) += 1;
                    fail(ctx, "truncated-document-loaded", "truncate".into(), format!("document truncated to {k} of {} bytes loaded as {} vertices / {} cells", bytes.len(), t.number_of_vertices(), t.number_of_cells()));
                }
                Ok((Err(_), _)) => {
                    *ctx.stats.faults_fired.entry("truncation".into()).or_insert(0) += 1;
                }
                Err(p) => fail(ctx, "deserialize-panicked", "truncate".into(), format!("panic on document truncated at {k}: {p}")),
            }
        }
        let few: Vec<usize> = if exhaustive && bytes.len() <= 400 { offsets.clone() } else { (0..24).map(|_| rng.usize_below(bytes.len())).collect() };
        for &k in &few {
            ctx.stats.evaluations += 2;
            match guarded(|| load_with::<K, D>(&bytes, RPlan { fail_at: Some(k), ..RPlan::default() }, &dt)) {
                Ok((Ok(_), fired)) => {
                    count(ctx, &fired);
                    if fired.contains(&"read-error") {
                        fail(ctx, "read-error-ignored", "read-error".into(), format!("read error at byte {k} but load returned Ok"));
                    }
                }
                Ok((Err(_), fired)) => count(ctx, &fired),
                Err(p) => fail(ctx, "deserialize-panicked", "read-error".into(), format!("panic on read error at {k}: {p}")),
            }
            let wplan = if rng.chance(1, 2) { WPlan { fail_at: Some(k), ..WPlan::default() } } else { WPlan { zero_at: Some(k), ..WPlan::default() } };
            match guarded(|| save_with(&dt, wplan.clone())) {
                Ok((Ok(_), fired)) => {
                    count(ctx, &fired);
                    if fired.contains(&"write-error") || fired.contains(&"write-zero") {
                        fail(ctx, "write-error-ignored", "write-error".into(), format!("write failure at byte {k} but serialisation returned Ok"));
                    }
                }
                Ok((Err(_), fired)) => count(ctx, &fired),
                Err(p) => fail(ctx, "serialize-panicked", "write-error".into(), format!("panic on write failure at {k}: {p}")),
            }
        }
        {
            ctx.stats.evaluations += 1;
            if let Ok((Ok(_), fired)) = guarded(|| save_with(&dt, WPlan { flush_fail: true, ..WPlan::default() })) {
                count(ctx, &fired);
                fail(ctx, "flush-error-ignored", "flush".into(), "flush error but Ok".into());
            }
        }

        // 4. disk corruption between save and load
        let mut corrupted: Vec<(String, Vec<u8>)> = Vec::new();
        for _ in 0..if self.thorough { 48 } else { 16 } {
            let mut b = bytes.clone();
            let i = rng.usize_below(b.len());
            match rng.below(3) {
                0 => {
                    b[i] ^= 1 << rng.below(8);
                    corrupted.push(("bit-flip".into(), b));
                }
                1 => {
                    // substitute within the token class (digit→digit, hex→hex)
                    let c = b[i];
                    if c.is_ascii_digit() {
                        b[i] = b'0' + ((c - b'0' + 1 + rng.below(8) as u8) % 10);
                        corrupted.push(("digit-substitution".into(), b));
                    } else if c.is_ascii_hexdigit() {
                        b[i] = b"0123456789abcdef"[rng.usize_below(16)];
                        if b[i] != c {
                            corrupted.push(("hex-substitution".into(), b));
                        }
                    }
                }
                _ => {
                    let j = rng.usize_below(b.len());
                    b.swap(i, j);
                    if b != bytes {
                        corrupted.push(("byte-swap".into(), b));
                    }
                }
            }
        }
        if let Ok(doc) = serde_json::from_slice::<serde_json::Value>(&bytes) {
            corrupted.extend(json_corruptions(&doc, &mut rng, if self.thorough { 36 } else { 14 }));
            corrupted.extend(generic_json_corruptions(&doc, &mut rng, if self.thorough { 40 } else { 16 }));
        }
        for (label, b) in corrupted {
            ctx.stats.evaluations += 1;
            *ctx.stats.faults_fired.entry(format!("corrupt:{label}")).or_insert(0) += 1;
            match guarded(|| load_raw::<K, D>(&b, &dt)) {
                Ok((Ok(t), _)) => {
                    ctx.stats.bump("c13.corrupted_documents_loaded");
                    let ts = Snap::of(&t);
                    if let Some(why) = structurally_consistent(&ts) {
                        fail(
                            ctx,
                            "structurally-inconsistent-document-loaded",
                            format!("corruption={label}|{}", inconsistency_class(&ts)),
                            format!("a document with corruption '{label}' was loaded instead of rejected; the resulting complex is structurally inconsistent: {why}; library Tds::is_valid() = {:?}", t.tds().is_valid().map_err(|e| e.to_string())),
                        );
                    }
                }
                Ok((Err(_), _)) => ctx.stats.bump("c13.corrupted_documents_rejected"),
                Err(p) => fail(ctx, "deserialize-panicked", format!("corruption={label}"), format!("panic while loading a corrupted document: {p}")),
            }
        }

        // 5. continuation: the copy stays usable and behaves like the original (general position)
        if ctx.header.family == "dyadic" {
            let rv = refval::validate(post, crate::monitors::valid::strength_of(post), false);
            if geom::embedded(post, &rv) == Tri::Yes && refdt::check(post).strict {
                let mut a = dt.clone();
                let mut b = loaded;
                for x in [&mut a, &mut b] {
                    // policies and counters are not part of the serialised form: start both from the same
                    x.set_delaunay_repair_policy(delaunay::core::delaunay_triangulation::DelaunayRepairPolicy::EveryInsertion);
                    x.set_delaunay_check_policy(delaunay::core::delaunay_triangulation::DelaunayCheckPolicy::EndOnly);
                }
                // the validation policy is not serialised either: give the original the copy's default
                let want = b.validation_policy();
                if guarded(|| a.set_validation_policy(want)).is_err() || a.validation_policy() != b.validation_policy() {
                    return;
                }
                for j in 0..3u64 {
                    let mut r2 = Rng::sub(ctx.header.run_seed, "serde-cont", ctx.oprec.idx * 8 + j);
                    let op = if j == 2 && !post.verts.is_empty() {
                        Op::Remove { obj: slot, uuid: Hex128(post.verts[r2.usize_below(post.verts.len())].uuid) }
                    } else {
                        let coords: Vec<f64> = (0..D).map(|_| r2.range_i64(0, 1023) as f64 / 1024.0).collect();
                        Op::Insert { obj: slot, v: VSpec::new(&coords, r2.uuid128(), Some(j as i32)), stats: j == 1 }
                    };
                    let mut plan = ctx.plan(&[]);
                    plan.uuid_seed = crate::rng::derive(ctx.header.run_seed, "serde-cont-uuid", ctx.oprec.idx * 8 + j);
                    let oa = run_mutator(&mut a, &plan, &op);
                    let ob = run_mutator(&mut b, &plan, &op);
                    ctx.stats.executions += 2;
                    ctx.stats.evaluations += 1;
                    let (sa, sb) = (Snap::of(&a), Snap::of(&b));
                    let geo = |s: &Snap| {
                        let rv = refval::validate(s, crate::monitors::valid::strength_of(s), false);
                        geom::embedded(s, &rv) == Tri::Yes && refdt::check(s).strict
                    };
                    // cell sets are forced by the point set only for convex, strictly Delaunay triangulations
                    let strict = geo(&sa) && geo(&sb);
                    if oa.kind != ob.kind || (strict && sa.canonical().cells != sb.canonical().cells) || sa.canonical().verts != sb.canonical().verts {
                        fail(
                            ctx,
                            "copy-diverges-from-original",
                            format!("continuation|op={}|orig={}|copy={}", op.kind(), oa.class(), ob.class()),
                            format!("{} on original -> {}, on the deserialised copy -> {}; vertex sets equal: {}, both strictly Delaunay: {strict}", op.kind(), oa.class(), ob.class(), sa.canonical().verts == sb.canonical().verts),
                        );
                        break;
                    }
                }
            }
        }
    }
}
