//! C05 — structural and topological validators accept exactly the valid complexes.
//!
//! Valid complexes are harvested from seeded histories; on each one every single stored-state
//! fault of each class is enumerated (sampled above a size cap), plus every pair on tiny
//! complexes. The reference validators decide, per level, whether the corrupted copy is invalid
//! and which level owns the first violation; the library's validator of that level must reject
//! it, the cumulative validators must equal the conjunction of their levels, and the report must
//! be empty exactly when cumulative validation passes.

use crate::exec::{ckey, vkey, OutKind, Outcome, SimKernel};
use crate::history::{Monitor, StepCtx};
use crate::refval::{self, Strength};
use crate::rng::Rng;
use crate::run::{push_violation, violation};
use crate::snap::{Dt, Snap, U, V};
use delaunay::core::triangulation_data_structure::Tds;
use delaunay::core::vertex::Vertex;
use delaunay::geometry::point::Point;
use delaunay::geometry::traits::coordinate::Coordinate;
use uuid::Uuid;

pub struct C05 {
    pub thorough: bool,
}

#[derive(Clone, Debug)]
enum Fault {
    NeighborDangling { cell: u64, slot: usize },
    NeighborOneWay { cell: u64, slot: usize },
    NeighborSlotsSwapped { cell: u64, a: usize, b: usize },
    NeighborOnBoundary { cell: u64, slot: usize, other: u64 },
    DuplicateCell { cell: u64 },
    MissingCell { cell: u64 },
    /// cell removed with `Tds::remove_cells_by_keys` (neighbour back-references and incident cells repaired): only Level 3 can object
    MissingCellClean { cell: u64, interior: bool },
    RepeatedVertex { cell: u64, from: usize, to: usize },
    SwapVerticesOnly { cell: u64, a: usize, b: usize },
    SwapVerticesAndNeighbors { cell: u64, a: usize, b: usize },
    FlatCell { vertex: u64, onto: u64 },
    NonFinite { vertex: u64, axis: usize, kind: u8 },
    IncidentDangling { vertex: u64 },
    IncidentWrongCell { vertex: u64, cell: u64 },
    IncidentNone { vertex: u64 },
    IsolatedVertex,
    DetachedCell,
    PinchAtVertex { vertex: u64 },
    PinchAtRidge { cell: u64, omit_a: usize, omit_b: usize },
}

impl Fault {
    fn class(&self) -> &'static str {
        match self {
            Fault::NeighborDangling { .. } => "dangling-neighbour",
            Fault::NeighborOneWay { .. } => "one-way-neighbour",
            Fault::NeighborSlotsSwapped { .. } => "wrong-mirror-slot",
            Fault::NeighborOnBoundary { .. } => "neighbour-across-non-shared-facet",
            Fault::DuplicateCell { .. } => "duplicate-cell",
            Fault::MissingCell { .. } => "missing-cell",
            Fault::MissingCellClean { interior: true, .. } => "interior-cavity",
            Fault::MissingCellClean { interior: false, .. } => "cleanly-removed-boundary-cell",
            Fault::RepeatedVertex { .. } => "repeated-vertex",
            Fault::SwapVerticesOnly { .. } => "swapped-vertex-order",
            Fault::SwapVerticesAndNeighbors { .. } => "inverted-cell-consistent-swap",
            Fault::FlatCell { .. } => "flat-cell",
            Fault::NonFinite { .. } => "non-finite-coordinate",
            Fault::IncidentDangling { .. } => "stale-incident-cell",
            Fault::IncidentWrongCell { .. } => "wrong-incident-cell",
            Fault::IncidentNone { .. } => "cleared-incident-cell",
            Fault::IsolatedVertex => "isolated-vertex",
            Fault::DetachedCell => "disconnected-component",
            Fault::PinchAtVertex { .. } => "pinched-vertex-link",
            Fault::PinchAtRidge { .. } => "pinched-ridge",
        }
    }
}

const FAKE_CELL: u64 = 0x0000_0063_0000_00fe;

fn far_vertex<const D: usize>(i: usize, base: f64) -> Vertex<f64, U, D> {
    let mut c = [base; D];
    c[i % D] += 1.0 + i as f64;
    if i >= D {
        c[(i + 1) % D] += 0.5;
    }
    Vertex::new_with_uuid(Point::new(c), Uuid::from_u128(0x5eed_0000_0000_4000_8000_0000_0000_0000u128 + i as u128 + ((base as u128) << 16)), None)
}

fn apply<const D: usize>(tds: &mut Tds<f64, U, V, D>, f: &Fault, s: &Snap) -> bool {
    match f {
        Fault::NeighborDangling { cell, slot } => tds.get_cell_by_key_mut(ckey(*cell)).map(|c| c.verif_set_neighbor_slot(*slot, Some(ckey(FAKE_CELL)))).is_some(),
        Fault::NeighborOneWay { cell, slot } => tds.get_cell_by_key_mut(ckey(*cell)).map(|c| c.verif_set_neighbor_slot(*slot, None)).is_some(),
        Fault::NeighborSlotsSwapped { cell, a, b } => {
            let Some(c) = s.cells.iter().find(|c| c.key == *cell) else { return false };
            let Some(n) = &c.nbrs else { return false };
            let (na, nb) = (n[*a], n[*b]);
            tds.get_cell_by_key_mut(ckey(*cell))
                .map(|c| {
                    c.verif_set_neighbor_slot(*a, nb.map(ckey));
                    c.verif_set_neighbor_slot(*b, na.map(ckey));
                })
                .is_some()
        }
        Fault::NeighborOnBoundary { cell, slot, other } => tds.get_cell_by_key_mut(ckey(*cell)).map(|c| c.verif_set_neighbor_slot(*slot, Some(ckey(*other)))).is_some(),
        Fault::DuplicateCell { cell } => {
            let Some(c) = s.cells.iter().find(|c| c.key == *cell) else { return false };
            tds.verif_insert_cell_raw(c.verts.iter().map(|k| vkey(*k)).collect()).is_some()
        }
        Fault::MissingCell { cell } => tds.remove_cell_by_key(ckey(*cell)).is_some(),
        Fault::MissingCellClean { cell, .. } => tds.remove_cells_by_keys(&[ckey(*cell)]) == 1,
        Fault::RepeatedVertex { cell, from, to } => {
            let Some(c) = s.cells.iter().find(|c| c.key == *cell) else { return false };
            let v = vkey(c.verts[*from]);
            tds.get_cell_by_key_mut(ckey(*cell)).map(|c| c.verif_set_vertex_slot(*to, v)).is_some()
        }
        Fault::SwapVerticesOnly { cell, a, b } => tds.get_cell_by_key_mut(ckey(*cell)).map(|c| c.verif_swap_slots(*a, *b, false)).is_some(),
        Fault::SwapVerticesAndNeighbors { cell, a, b } => tds.get_cell_by_key_mut(ckey(*cell)).map(|c| c.verif_swap_slots(*a, *b, true)).is_some(),
        Fault::FlatCell { vertex, onto } => {
            let Some(w) = s.vertex_by_key(*onto) else { return false };
            let mut c = [0.0; D];
            c.copy_from_slice(&w.coords);
            tds.get_vertex_by_key_mut(vkey(*vertex)).map(|v| v.verif_set_coords(c)).is_some()
        }
        Fault::NonFinite { vertex, axis, kind } => {
            let Some(w) = s.vertex_by_key(*vertex) else { return false };
            let mut c = [0.0; D];
            c.copy_from_slice(&w.coords);
            c[*axis] = match kind {
                0 => f64::NAN,
                1 => f64::INFINITY,
                _ => f64::NEG_INFINITY,
            };
            tds.get_vertex_by_key_mut(vkey(*vertex)).map(|v| v.verif_set_coords(c)).is_some()
        }
        Fault::IncidentDangling { vertex } => tds.get_vertex_by_key_mut(vkey(*vertex)).map(|v| v.incident_cell = Some(ckey(FAKE_CELL))).is_some(),
        Fault::IncidentWrongCell { vertex, cell } => tds.get_vertex_by_key_mut(vkey(*vertex)).map(|v| v.incident_cell = Some(ckey(*cell))).is_some(),
        Fault::IncidentNone { vertex } => tds.get_vertex_by_key_mut(vkey(*vertex)).map(|v| v.incident_cell = None).is_some(),
        Fault::IsolatedVertex => tds.verif_insert_vertex_raw(far_vertex::<D>(0, 900.0)).is_some(),
        Fault::DetachedCell => {
            let keys: Option<Vec<_>> = (0..=D).map(|i| tds.verif_insert_vertex_raw(far_vertex::<D>(i, 700.0))).collect();
            let Some(keys) = keys else { return false };
            match tds.verif_insert_cell_raw(keys.clone()) {
                Some(ck) => {
                    for k in keys {
                        if let Some(v) = tds.get_vertex_by_key_mut(k) {
                            v.incident_cell = Some(ck);
                        }
                    }
                    true
                }
                None => false,
            }
        }
        Fault::PinchAtVertex { vertex } => {
            let mut keys = vec![vkey(*vertex)];
            for i in 0..D {
                match tds.verif_insert_vertex_raw(far_vertex::<D>(i, 500.0)) {
                    Some(k) => keys.push(k),
                    None => return false,
                }
            }
            match tds.verif_insert_cell_raw(keys.clone()) {
                Some(ck) => {
                    for k in keys.iter().skip(1) {
                        if let Some(v) = tds.get_vertex_by_key_mut(*k) {
                            v.incident_cell = Some(ck);
                        }
                    }
                    true
                }
                None => false,
            }
        }
        Fault::PinchAtRidge { cell, omit_a, omit_b } => {
            let Some(c) = s.cells.iter().find(|c| c.key == *cell) else { return false };
            let mut keys: Vec<_> = c.verts.iter().enumerate().filter(|(i, _)| i != omit_a && i != omit_b).map(|(_, k)| vkey(*k)).collect();
            for i in 0..2 {
                match tds.verif_insert_vertex_raw(far_vertex::<D>(i, 300.0)) {
                    Some(k) => keys.push(k),
                    None => return false,
                }
            }
            let newv: Vec<_> = keys[keys.len() - 2..].to_vec();
            match tds.verif_insert_cell_raw(keys) {
                Some(ck) => {
                    for k in newv {
                        if let Some(v) = tds.get_vertex_by_key_mut(k) {
                            v.incident_cell = Some(ck);
                        }
                    }
                    true
                }
                None => false,
            }
        }
    }
}

fn enumerate_faults(s: &Snap, d: usize) -> Vec<Fault> {
    let mut out = Vec::new();
    for c in &s.cells {
        let n = c.verts.len();
        for i in 0..n {
            let has = c.nbrs.as_ref().and_then(|x| x.get(i).copied().flatten());
            if has.is_some() {
                out.push(Fault::NeighborDangling { cell: c.key, slot: i });
                out.push(Fault::NeighborOneWay { cell: c.key, slot: i });
            } else if let Some(other) = s.cells.iter().find(|o| o.key != c.key) {
                out.push(Fault::NeighborOnBoundary { cell: c.key, slot: i, other: other.key });
            }
            for j in i + 1..n {
                let (ni, nj) = (c.nbrs.as_ref().and_then(|x| x[i]), c.nbrs.as_ref().and_then(|x| x[j]));
                if ni != nj {
                    out.push(Fault::NeighborSlotsSwapped { cell: c.key, a: i, b: j });
                }
                out.push(Fault::SwapVerticesOnly { cell: c.key, a: i, b: j });
                out.push(Fault::SwapVerticesAndNeighbors { cell: c.key, a: i, b: j });
                out.push(Fault::RepeatedVertex { cell: c.key, from: i, to: j });
                if d >= 3 {
                    out.push(Fault::PinchAtRidge { cell: c.key, omit_a: i, omit_b: j });
                }
            }
        }
        out.push(Fault::DuplicateCell { cell: c.key });
        out.push(Fault::MissingCell { cell: c.key });
        if s.cells.len() > 1 {
            let interior = c.nbrs.as_ref().is_some_and(|n| n.iter().all(Option::is_some));
            out.push(Fault::MissingCellClean { cell: c.key, interior });
        }
    }
    for v in &s.verts {
        for axis in 0..d {
            out.push(Fault::NonFinite { vertex: v.key, axis, kind: (axis % 3) as u8 });
        }
        out.push(Fault::IncidentDangling { vertex: v.key });
        out.push(Fault::IncidentNone { vertex: v.key });
        if let Some(c) = s.cells.iter().find(|c| !c.verts.contains(&v.key)) {
            out.push(Fault::IncidentWrongCell { vertex: v.key, cell: c.key });
        }
        if let Some(c) = s.cells.iter().find(|c| c.verts.contains(&v.key))
            && let Some(w) = c.verts.iter().find(|w| **w != v.key)
        {
            out.push(Fault::FlatCell { vertex: v.key, onto: *w });
        }
        out.push(Fault::PinchAtVertex { vertex: v.key });
    }
    out.push(Fault::IsolatedVertex);
    out.push(Fault::DetachedCell);
    out
}

struct LibVerdicts {
    l1: bool,
    l2: bool,
    l3: bool,
    completion: bool,
    tds_validate: bool,
    tri_validate: bool,
    dt_is_valid: Option<bool>,
    dt_validate: bool,
    report_ok: bool,
    first_error: String,
}

fn library_verdicts<K: SimKernel<D>, const D: usize>(dt: &Dt<K, D>) -> LibVerdicts {
    let l1 = dt.vertices().all(|(_, v)| (*v).is_valid().is_ok()) && dt.cells().all(|(_, c)| c.is_valid().is_ok());
    let l2r = dt.tds().is_valid();
    let tri = dt.as_triangulation();
    let tds_validate = dt.tds().validate();
    let tri_validate = tri.validate();
    // upper levels are only defined when the lower ones hold
    let l3r = if tds_validate.is_ok() { Some(tri.is_valid()) } else { None };
    let comp = if tds_validate.is_ok() && l3r.as_ref().is_some_and(Result::is_ok) { Some(tri.validate_at_completion()) } else { None };
    let dt_is_valid = if tri_validate.is_ok() { Some(dt.is_valid().is_ok()) } else { None };
    let dt_validate = dt.validate();
    let report = dt.validation_report();
    let first_error = tds_validate
        .as_ref()
        .err()
        .map(ToString::to_string)
        .or_else(|| l3r.as_ref().and_then(|r| r.as_ref().err().map(ToString::to_string)))
        .or_else(|| comp.as_ref().and_then(|r| r.as_ref().err().map(ToString::to_string)))
        .unwrap_or_default();
    LibVerdicts {
        l1,
        l2: l2r.is_ok(),
        l3: l3r.as_ref().is_none_or(Result::is_ok),
        completion: comp.as_ref().is_none_or(Result::is_ok),
        tds_validate: tds_validate.is_ok(),
        tri_validate: tri_validate.is_ok(),
        dt_is_valid,
        dt_validate: dt_validate.is_ok(),
        report_ok: report.is_ok(),
        first_error,
    }
}

impl C05 {
    #[allow(clippy::too_many_lines)]
    fn judge<K: SimKernel<D>, const D: usize>(&self, ctx: &mut StepCtx<'_, K, D>, label: &str, dt: &Dt<K, D>, expect_valid: bool) {
        let snap = match std::panic::catch_unwind(std::panic::AssertUnwindSafe(|| Snap::of(dt))) {
            Ok(s) => s,
            Err(_) => return,
        };
        let strength = crate::monitors::valid::strength_of(&snap);
        let lib = match std::panic::catch_unwind(std::panic::AssertUnwindSafe(|| library_verdicts(dt))) {
            Ok(l) => l,
            Err(p) => {
                let msg = p.downcast_ref::<String>().cloned().or_else(|| p.downcast_ref::<&str>().map(|s| (*s).to_string())).unwrap_or_default();
                push_violation(ctx.violations, violation("C05", "validator-panicked", ctx.step, format!("fault={label}"), format!("a validator panicked on a corrupted complex ({label}): {msg}")));
                return;
            }
        };
        ctx.stats.evaluations += 1;
        // reference verdict per level
        let mut r1 = refval::Report::default();
        refval::level1(&snap, &mut r1);
        let mut r2 = refval::Report::default();
        if r1.ok() {
            refval::level2(&snap, &mut r2);
        }
        let mut r3 = refval::Report::default();
        let mut r3c = refval::Report::default();
        if r1.ok() && r2.ok() {
            refval::level3(&snap, strength, false, &mut r3);
            if r3.ok() && r3.geo_positive != Some(false) {
                refval::level3(&snap, strength, true, &mut r3c);
            }
        }
        ctx.stats.abstained += (r3.abstained) as u64;
        let undecided_geo = r1.ok() && r2.ok() && r3.geo_positive.is_none() && r3.ok();
        let first_kind: &'static str = [&r1, &r2, &r3, &r3c].iter().find_map(|r| r.first().map(|v| v.kind)).unwrap_or("none");
        let mut fail = |ctx: &mut StepCtx<'_, K, D>, clause: &str, detail: String| {
            push_violation(ctx.violations, violation("C05", clause, ctx.step, format!("fault={label}|{clause}|tg={:?}|d={D}|kind={first_kind}", strength), detail));
        };
        let owner = if !r1.ok() {
            1
        } else if !r2.ok() {
            2
        } else if !r3.ok() || r3.geo_positive == Some(false) {
            3
        } else if !r3c.ok() {
            4 // completion-time vertex links
        } else {
            0
        };
        let why = [&r1, &r2, &r3, &r3c].iter().find_map(|r| r.first().map(|v| format!("L{} {}: {}", v.level, v.kind, v.detail))).unwrap_or_else(|| "valid".into());
        if expect_valid && owner != 0 {
            // harvested state is not valid by the reference: not a base for enumeration
            return;
        }
        match owner {
            1 => {
                if lib.l1 {
                    fail(ctx, "level1-accepts-invalid-element", format!("reference: {why}; every Vertex::is_valid/Cell::is_valid passed"));
                }
                if lib.tds_validate {
                    fail(ctx, "cumulative-accepts-level1-violation", format!("reference: {why}; Tds::validate() = Ok"));
                }
            }
            2 => {
                if lib.l2 {
                    fail(ctx, "level2-accepts-invalid-structure", format!("reference: {why}; Tds::is_valid() = Ok"));
                }
                if lib.tds_validate || lib.tri_validate || lib.dt_validate {
                    fail(ctx, "cumulative-accepts-level2-violation", format!("reference: {why}; tds.validate={} tri.validate={} dt.validate={}", lib.tds_validate, lib.tri_validate, lib.dt_validate));
                }
            }
            3 if !undecided_geo => {
                if lib.l3 && lib.tds_validate {
                    fail(ctx, "level3-accepts-invalid-topology", format!("reference: {why}; Triangulation::is_valid() = Ok"));
                }
                if lib.tri_validate || lib.dt_validate {
                    fail(ctx, "cumulative-accepts-level3-violation", format!("reference: {why}; tri.validate={} dt.validate={}", lib.tri_validate, lib.dt_validate));
                }
            }
            4 => {
                if lib.completion && lib.tri_validate {
                    fail(ctx, "completion-accepts-invalid-vertex-link", format!("reference: {why}; validate_at_completion/validate = Ok"));
                }
            }
            0 if !undecided_geo => {
                // valid by the reference at every level: nothing may reject it
                if !(lib.l1 && lib.l2 && lib.l3 && lib.completion && lib.tds_validate && lib.tri_validate) {
                    fail(
                        ctx,
                        "valid-complex-rejected",
                        format!(
                            "reference finds Levels 1-3 satisfied but the library rejects: l1={} l2={} l3={} completion={} tds.validate={} tri.validate={}: {}",
                            lib.l1, lib.l2, lib.l3, lib.completion, lib.tds_validate, lib.tri_validate, lib.first_error
                        ),
                    );
                }
            }
            _ => {}
        }
        // cumulative = conjunction of the levels (each conjunct evaluated only when the lower ones pass)
        if lib.tds_validate != (lib.l1 && lib.l2) {
            fail(ctx, "tds-validate-not-conjunction", format!("Tds::validate()={} but elements={} && Tds::is_valid()={}", lib.tds_validate, lib.l1, lib.l2));
        }
        if lib.tri_validate != (lib.tds_validate && lib.l3 && lib.completion) {
            fail(ctx, "tri-validate-not-conjunction", format!("Triangulation::validate()={} but tds.validate={} is_valid={} completion={}", lib.tri_validate, lib.tds_validate, lib.l3, lib.completion));
        }
        if let Some(l4) = lib.dt_is_valid
            && lib.dt_validate != (lib.tri_validate && l4)
        {
            fail(ctx, "dt-validate-not-conjunction", format!("dt.validate()={} but tri.validate={} dt.is_valid={}", lib.dt_validate, lib.tri_validate, l4));
        }
        if lib.report_ok != lib.dt_validate {
            fail(ctx, "report-disagrees-with-validate", format!("validation_report ok={} but dt.validate ok={}", lib.report_ok, lib.dt_validate));
        }
    }
}

/// The validators' verdict on a stored complex must not depend on the configured validation
/// policy: the corrupted copy gets one of the policies that every guarantee accepts (`Never` is
/// left out - the setter refuses it for PL guarantees on an invalid complex, see C19-F1).
fn set_policy_variant<K: SimKernel<D>, const D: usize>(dt: &mut Dt<K, D>, rng: &mut Rng) {
    use delaunay::core::triangulation::ValidationPolicy;
    let p = match rng.below(4) {
        0 | 1 => return,
        2 => ValidationPolicy::Always,
        _ => ValidationPolicy::DebugOnly,
    };
    let _ = std::panic::catch_unwind(std::panic::AssertUnwindSafe(|| dt.set_validation_policy(p)));
}

impl<K: SimKernel<D>, const D: usize> Monitor<K, D> for C05 {
    fn after(&mut self, ctx: &mut StepCtx<'_, K, D>, _pre: Option<&Snap>, out: &Outcome, post: Option<&Snap>) {
        if matches!(out.kind, OutKind::Unresolved | OutKind::Panic) {
            return;
        }
        let slot = match &ctx.oprec.op {
            crate::ops::Op::CloneTo { target, .. } | crate::ops::Op::SaveLoad { target, .. } => Some(*target),
            op => op.obj(),
        };
        let (Some(slot), Some(post)) = (slot, post) else { return };
        if post.cells.is_empty() {
            return;
        }
        let mut rng = Rng::sub(ctx.header.run_seed, "c05", ctx.oprec.idx);
        if !rng.chance(1, 3) {
            return;
        }
        let Some(base) = ctx.world.objs.get(slot).and_then(|o| o.as_ref()).cloned() else { return };
        // harvest only states that are valid by the reference at completion strength
        let strength = crate::monitors::valid::strength_of(post);
        let rv = refval::validate(post, strength, true);
        if !rv.ok() || rv.geo_positive != Some(true) {
            ctx.stats.bump("c05.state_not_harvestable");
            return;
        }
        ctx.stats.bump("c05.harvested_complexes");
        // (iii) the uncorrupted complex is accepted by every level
        self.judge(ctx, "none", &base, true);
        let tg = base.topology_guarantee();
        let mut faults = enumerate_faults(post, D);
        let cap = if self.thorough { 1500 } else { 260 };
        if post.cells.len() <= 12 && faults.len() <= cap {
            ctx.stats.bump("c05.complexes_enumerated_exhaustively");
        } else {
            // stratified sample: shuffle, then take the classes round-robin so that a rare class
            // (one interior cell among thousands of slot faults) is never crowded out
            rng.shuffle(&mut faults);
            let mut rank: std::collections::BTreeMap<&'static str, usize> = std::collections::BTreeMap::new();
            let mut keyed: Vec<(usize, Fault)> = faults
                .into_iter()
                .map(|f| {
                    let r = rank.entry(f.class()).or_insert(0);
                    *r += 1;
                    (*r, f)
                })
                .collect();
            keyed.sort_by_key(|(r, _)| *r);
            faults = keyed.into_iter().map(|(_, f)| f).take(cap).collect();
            ctx.stats.bump("c05.complexes_sampled");
        }
        for f in &faults {
            let mut tds = base.tds().clone();
            if !apply::<D>(&mut tds, f, post) {
                continue;
            }
            *ctx.stats.faults_fired.entry(format!("raw:{}", f.class())).or_insert(0) += 1;
            ctx.stats.faults_armed += 1;
            let mut dt = Dt::<K, D>::from_tds_with_topology_guarantee(tds, K::default(), tg);
            set_policy_variant(&mut dt, &mut rng);
            self.judge(ctx, f.class(), &dt, false);
        }
        // every pair on tiny complexes
        if post.cells.len() <= 4 {
            let all = enumerate_faults(post, D);
            let mut pairs = 0;
            let max_pairs = if self.thorough { 1200 } else { 150 };
            'outer: for (i, a) in all.iter().enumerate() {
                for b in all.iter().skip(i + 1) {
                    if pairs >= max_pairs {
                        break 'outer;
                    }
                    if !rng.chance(1, if self.thorough { 4 } else { 40 }) {
                        continue;
                    }
                    let mut tds = base.tds().clone();
                    if !apply::<D>(&mut tds, a, post) || !apply::<D>(&mut tds, b, post) {
                        continue;
                    }
                    pairs += 1;
                    ctx.stats.faults_armed += 2;
                    let mut dt = Dt::<K, D>::from_tds_with_topology_guarantee(tds, K::default(), tg);
                    set_policy_variant(&mut dt, &mut rng);
                    self.judge(ctx, &format!("{}+{}", a.class(), b.class()), &dt, false);
                }
            }
            ctx.stats.add("c05.fault_pairs", pairs);
        }
    }
}
