//! C01 — every successful batch construction returns a certified Delaunay triangulation.
//!
//! The constructor is the library's own history of transactional insertions with perturbation
//! retry, skip-on-degeneracy, per-insertion repair, final repair, completion validation and a
//! shuffled-retry loop; class-A failpoints and budget knobs steer it through those branches.

use crate::exec::{OutKind, Outcome, SimKernel};
use crate::geom::{self, Tri};
use crate::history::{Monitor, StepCtx};
use crate::ops::Op;
use crate::refdt;
use crate::refval;
use crate::run::{push_violation, violation};
use crate::snap::Snap;
use std::collections::BTreeMap;

pub struct C01;

impl<K: SimKernel<D>, const D: usize> Monitor<K, D> for C01 {
    #[allow(clippy::too_many_lines)]
    fn after(&mut self, ctx: &mut StepCtx<'_, K, D>, _pre: Option<&Snap>, out: &Outcome, post: Option<&Snap>) {
        let Op::New { verts, ctor, opts, .. } = &ctx.oprec.op else { return };
        if out.kind != OutKind::Ok {
            if out.kind == OutKind::Err {
                ctx.stats.bump("c01.construction_err");
            }
            // "Unsuitable input yields Err, never a panic": every generated input is finite
            if out.kind == OutKind::Panic && out.tag != "tick-ceiling" && verts.iter().all(|v| v.coords().iter().all(|c| c.is_finite())) {
                ctx.stats.evaluations += 1;
                let first = out.detail.lines().next().unwrap_or("");
                let mut shape = String::new();
                for c in first.chars().take(100) {
                    let c = if c.is_ascii_digit() { '#' } else { c };
                    if !(c == '#' && shape.ends_with('#')) {
                        shape.push(c);
                    }
                }
                push_violation(
                    ctx.violations,
                    violation("C01", "constructor-panicked", ctx.step, format!("ctor={ctor}|d={D}|{shape}"), format!("constructor panicked on a finite point set: {} [opts={opts:?}, faults={:?}]", out.detail, ctx.oprec.faults)),
                );
            }
            return;
        }
        let Some(post) = post else { return };
        ctx.stats.evaluations += 1;
        let faults: Vec<&str> = ctx.oprec.faults.iter().map(|f| f.0.as_str()).collect();
        let tail = format!("ctor={ctor}|d={D}");
        let mut fail = |ctx: &mut StepCtx<'_, K, D>, clause: &str, sig: String, detail: String| {
            push_violation(ctx.violations, violation("C01", clause, ctx.step, sig, format!("{detail} [ctor={ctor}, opts={opts:?}, faults={faults:?}]")));
        };
        // vertices are exactly the non-skipped inputs
        let input: BTreeMap<u128, &crate::ops::VSpec> = verts.iter().map(|v| (v.uuid.0, v)).collect();
        let mut diag: f64 = 1.0;
        for a in verts {
            for b in verts {
                let d2: f64 = a.coords().iter().zip(b.coords()).map(|(x, y)| (x - y).powi(2)).sum();
                diag = diag.max(d2.sqrt());
            }
        }
        for v in &post.verts {
            match input.get(&v.uuid) {
                None => fail(ctx, "invented-vertex", format!("{tail}|invented"), format!("vertex {:032x} is not among the inputs", v.uuid)),
                Some(i) => {
                    if i.data != v.data {
                        fail(ctx, "vertex-data-changed", format!("{tail}|data"), format!("vertex {:032x} data {:?} -> {:?}", v.uuid, i.data, v.data));
                    }
                    let orig = i.coords();
                    let ok = v.coords.iter().zip(&orig).enumerate().all(|(ax, (a, b))| {
                        a.to_bits() == b.to_bits() || (a - b).abs() <= 1.0001e-8 * diag * (ax as f64 + 1.0)
                    });
                    if !ok {
                        fail(ctx, "vertex-displaced-beyond-perturbation", format!("{tail}|coords"), format!("vertex {:032x} {:?} -> {:?}", v.uuid, orig, v.coords));
                    }
                }
            }
        }
        // statistics
        if let Some((inserted, sd, sg, samples)) = &out.cstats {
            if *inserted != post.verts.len() {
                fail(ctx, "inserted-count-wrong", format!("{tail}|inserted"), format!("statistics.inserted = {inserted}, vertices present = {}", post.verts.len()));
            }
            if opts.dedup == "Off" || opts.dedup == "Default" {
                if inserted + sd + sg != verts.len() {
                    fail(ctx, "accounting-wrong", format!("{tail}|accounting"), format!("inserted {inserted} + skipped_duplicate {sd} + skipped_degeneracy {sg} != {} inputs (dedup off)", verts.len()));
                }
            } else if inserted + sd + sg > verts.len() {
                fail(ctx, "accounting-wrong", format!("{tail}|accounting"), format!("inserted {inserted} + skipped {} exceeds {} inputs", sd + sg, verts.len()));
            }
            for u in samples {
                if post.verts.iter().any(|v| v.uuid == *u) {
                    fail(ctx, "skip-sample-present", format!("{tail}|skip-sample"), format!("skip sample uuid {u:032x} is present in the result"));
                }
            }
        }
        // every input is present, or was legitimately left out: a duplicate under the dedup policy /
        // the insertion-time duplicate tolerance (then it lies next to a survivor), or skipped as
        // degenerate (then the statistics, where the constructor returns them, say so)
        {
            let present: std::collections::BTreeSet<u128> = post.verts.iter().map(|v| v.uuid).collect();
            let tol = match opts.dedup.as_str() {
                "Epsilon" => f64::from_bits(opts.dedup_tol_bits).abs(),
                _ => 0.0,
            };
            let near = tol.max(1e-10) * (1.0 + 1e-9) + 2.0e-8 * diag * D as f64;
            let unexplained: Vec<&crate::ops::VSpec> = verts
                .iter()
                .filter(|i| !present.contains(&i.uuid.0))
                .filter(|i| {
                    let c = i.coords();
                    !post.verts.iter().any(|p| p.coords.iter().zip(&c).all(|(a, b)| (a - b).abs() <= near))
                })
                .collect();
            if !unexplained.is_empty() {
                ctx.stats.bump("c01.inputs_absent_and_not_near_a_survivor");
                // a vertex skipped as degenerate takes the inputs that deduplication had folded
                // into it along (they were counted as duplicates of a representative that then
                // did not make it): count groups of mutually near unexplained inputs, not inputs
                let mut group: Vec<usize> = (0..unexplained.len()).collect();
                for i in 0..unexplained.len() {
                    for j in 0..i {
                        let (a, b) = (unexplained[i].coords(), unexplained[j].coords());
                        if a.iter().zip(&b).all(|(x, y)| (x - y).abs() <= near) {
                            let (gi, gj) = (group[i], group[j]);
                            for g in group.iter_mut() {
                                if *g == gi {
                                    *g = gj;
                                }
                            }
                        }
                    }
                }
                let groups: std::collections::BTreeSet<usize> = group.iter().copied().collect();
                if let Some((_, _, sg, _)) = &out.cstats
                    && groups.len() > *sg
                {
                    let u = unexplained[0];
                    fail(
                        ctx,
                        "input-vertex-vanished",
                        format!("{tail}|dedup={}|vanished", opts.dedup),
                        format!("{} input vertices in {} separate places are absent from the result, not within {near:e} of any survivor, and only {sg} were reported as skipped for degeneracy; e.g. {:032x} at {:?}", unexplained.len(), groups.len(), u.uuid.0, u.coords()),
                    );
                }
            }
        }
        // certified: reference Levels 1-3 at completion strength, convex boundary, exact Delaunay
        let strength = crate::monitors::valid::strength_of(post);
        let rv = refval::validate(post, strength, true);
        ctx.stats.abstained += rv.abstained as u64;
        if !rv.ok() || rv.geo_positive == Some(false) {
            let k = rv.first().map_or("geo", |x| x.kind);
            fail(ctx, "invalid-construction-result", format!("{tail}|kind={k}"), format!("reference validation of the returned triangulation: {}", rv.first().map_or("orientation".to_string(), |v| format!("L{} {}: {}", v.level, v.kind, v.detail))));
            return;
        }
        match geom::embedded(post, &rv) {
            Tri::Yes => {}
            Tri::Undecided => {
                ctx.stats.bump("c01.undecided_geometry");
                return;
            }
            Tri::No => {
                fail(ctx, "boundary-not-convex", format!("{tail}|convexity"), "some vertex lies strictly outside a boundary facet of the returned triangulation".into());
                return;
            }
        }
        let rd = refdt::check(post);
        ctx.stats.abstained += rd.abstained as u64;
        if out.predicate_failure_absorbed() {
            ctx.stats.bump("c01.delaunay_clause_not_judged_predicate_failure_absorbed");
        } else if !rd.violations.is_empty() {
            fail(
                ctx,
                "construction-not-delaunay",
                format!("{tail}|{}", rd.violation_class()),
                format!("{} (cell,vertex) pairs violate the empty-circumsphere property exactly (abstained {}), e.g. cell {:#x} vertex {:#x}", rd.violations.len(), rd.abstained, rd.violations[0].0, rd.violations[0].1),
            );
        }
    }
}
