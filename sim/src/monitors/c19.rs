//! C19 — no panic and guaranteed termination on any finite input.
//!
//! Every operation of the adversarial profile (stale / foreign / out-of-range handles, extreme
//! magnitudes, non-finite coordinates offered to every entry point, tiny budgets, policy flips,
//! class-A faults) runs under `catch_unwind` with a work-tick ceiling; worker processes detect
//! aborts and stack overflows. No class-B (crash-point) faults are used here: the property
//! quantifies over API histories, not over injected internal failures.

use crate::exec::{OutKind, Outcome, SimKernel};
use crate::history::{Monitor, StepCtx};
use crate::ops::Op;
use crate::run::{push_violation, violation};
use crate::snap::Snap;

pub struct C19;

impl<K: SimKernel<D>, const D: usize> Monitor<K, D> for C19 {
    fn after(&mut self, ctx: &mut StepCtx<'_, K, D>, pre: Option<&Snap>, out: &Outcome, post: Option<&Snap>) {
        ctx.stats.evaluations += 1;
        let kind = ctx.oprec.op.kind();
        if out.kind == OutKind::Panic {
            let first_line = out.detail.lines().next().unwrap_or("").to_string();
            // strip run-specific values (keys, numbers) from the message for the signature
            let shape: String = first_line.chars().map(|c| if c.is_ascii_digit() { '#' } else { c }).collect();
            let shape = shape.chars().take(90).collect::<String>();
            let clause = if out.tag == "tick-ceiling" { "work-ceiling-exceeded" } else { "panic" };
            push_violation(
                ctx.violations,
                violation("C19", clause, ctx.step, format!("op={kind}|{shape}"), format!("{kind} panicked: {} (faults {:?}, knobs {:?})", out.detail, ctx.oprec.faults, ctx.oprec.knobs)),
            );
            return;
        }
        // non-finite coordinates are refused before they can enter a triangulation
        if let Some(post) = post {
            if let Some(v) = post.verts.iter().find(|v| v.coords.iter().any(|c| !c.is_finite())) {
                push_violation(
                    ctx.violations,
                    violation("C19", "non-finite-coordinate-entered", ctx.step, format!("op={kind}"), format!("vertex {:032x} has coordinates {:?} after {kind} -> {}", v.uuid, v.coords, out.class())),
                );
            }
            if let (Op::Insert { v, .. }, Some(pre)) = (&ctx.oprec.op, pre)
                && v.coords().iter().any(|c| !c.is_finite())
            {
                if out.kind == OutKind::Ok {
                    push_violation(ctx.violations, violation("C19", "non-finite-insertion-accepted", ctx.step, format!("op={kind}"), format!("insertion of {:?} reported success", v.coords())));
                } else if let Some(d) = pre.diff(post) {
                    push_violation(ctx.violations, violation("C19", "non-finite-insertion-changed-state", ctx.step, format!("op={kind}"), format!("refused insertion of {:?} changed the triangulation: {d}", v.coords())));
                }
            }
        }
        ctx.stats.add("c19.max_ticks_seen", 0);
        let e = ctx.stats.counters.entry("c19.max_ticks_per_op".into()).or_insert(0);
        if out.ticks > *e {
            *e = out.ticks;
        }
    }
}
