//! C19 — no panic and guaranteed termination on any finite input.
//!
//! Every operation of the adversarial profile (stale / foreign / out-of-range handles, extreme
//! magnitudes, non-finite coordinates offered to every entry point, tiny budgets, policy flips,
//! class-A faults) runs under `catch_unwind` with a work-tick ceiling; worker processes detect
//! aborts and stack overflows. No class-B (crash-point) faults are used here: the property
//! quantifies over API histories, not over injected internal failures.

use crate::exec::{ckey, OutKind, Outcome, SimKernel};
use crate::history::{Monitor, StepCtx};
use crate::ops::Op;
use crate::rng::Rng;
use crate::run::{push_violation, violation};
use crate::snap::{Snap, U, V};
use delaunay::core::algorithms::locate::locate_with_stats;
use delaunay::core::facet::FacetHandle;
use delaunay::geometry::algorithms::convex_hull::ConvexHull;
use delaunay::geometry::point::Point;
use delaunay::geometry::traits::coordinate::Coordinate;
use std::panic::{catch_unwind, AssertUnwindSafe};

pub struct C19<K: SimKernel<D>, const D: usize> {
    /// hull views kept from earlier steps (stale by now) or taken from another object (foreign)
    old_hulls: Vec<ConvexHull<K, U, V, D>>,
}

impl<K: SimKernel<D>, const D: usize> Default for C19<K, D> {
    fn default() -> Self {
        Self { old_hulls: Vec::new() }
    }
}

impl<K: SimKernel<D>, const D: usize> C19<K, D> {
    /// The read-only half of the public API with handles of any provenance: every hull query on
    /// an empty (default), fresh, stale and foreign hull view, with the hull's own facet handles
    /// and fabricated / stale / out-of-range ones, at ordinary and extreme finite points.
    fn hull_battery(&mut self, ctx: &mut StepCtx<'_, K, D>, slot: usize, post: &Snap) {
        let mut rng = Rng::sub(ctx.header.run_seed, "c19-hull", ctx.oprec.idx);
        if !rng.chance(1, 3) {
            return;
        }
        let Some(dt) = ctx.world.objs.get(slot).and_then(|o| o.as_ref()).cloned() else { return };
        let tri = dt.as_triangulation();
        let mut hulls: Vec<(&'static str, ConvexHull<K, U, V, D>)> = vec![("default", ConvexHull::default())];
        match catch_unwind(AssertUnwindSafe(|| ConvexHull::from_triangulation(tri))) {
            Ok(Ok(h)) => hulls.push(("fresh", h)),
            Ok(Err(_)) => {}
            Err(p) => {
                self.report(ctx, "hull:from_triangulation", "n/a", &p);
                return;
            }
        }
        for h in self.old_hulls.drain(..) {
            hulls.push(("old", h));
        }
        // handles: a live cell with in-range and out-of-range facet indices, a fabricated cell key
        let mut handles: Vec<FacetHandle> = Vec::new();
        if let Some(c) = post.cells.first() {
            handles.push(FacetHandle::new(ckey(c.key), 0));
            handles.push(FacetHandle::new(ckey(c.key), D as u8));
            handles.push(FacetHandle::new(ckey(c.key), 200));
        }
        handles.push(FacetHandle::new(ckey(0x0000_0007_0000_0063), 1));
        let mut points: Vec<[f64; D]> = vec![[0.25; D], [1e300; D], [-1e-300; D]];
        if let Some(v) = post.verts.first() {
            let mut a = [0.0; D];
            a.copy_from_slice(&v.coords);
            if a.iter().all(|c| c.is_finite()) {
                points.push(a);
            }
        }
        for (label, hull) in &hulls {
            let mut hs = handles.clone();
            hs.extend(hull.facets().take(2).copied());
            for p in &points {
                let point = Point::new(*p);
                let calls: [(&'static str, Box<dyn Fn() + '_>); 4] = [
                    ("hull:is_point_outside", Box::new(|| drop(hull.is_point_outside(&point, tri)))),
                    ("hull:find_visible_facets", Box::new(|| drop(hull.find_visible_facets(&point, tri)))),
                    ("hull:find_nearest_visible_facet", Box::new(|| drop(hull.find_nearest_visible_facet(&point, tri)))),
                    ("hull:validate", Box::new(|| drop(hull.validate(tri)))),
                ];
                for (name, f) in &calls {
                    ctx.stats.executions += 1;
                    if let Err(pl) = catch_unwind(AssertUnwindSafe(f)) {
                        self.report(ctx, name, label, &pl);
                    }
                }
                for h in &hs {
                    ctx.stats.executions += 1;
                    if let Err(pl) = catch_unwind(AssertUnwindSafe(|| drop(hull.is_facet_visible_from_point(h, &point, tri)))) {
                        self.report(ctx, "hull:is_facet_visible_from_point", label, &pl);
                    }
                }
            }
            let _ = catch_unwind(AssertUnwindSafe(|| hull.invalidate_cache()));
        }
        // keep the fresh hull: it is stale (or foreign, after a clone) at a later step
        for (label, h) in hulls {
            if label == "fresh" && self.old_hulls.len() < 2 {
                self.old_hulls.push(h);
            }
        }
    }

    /// Point location with hints of any provenance and tiny step budgets: no panic, and the walk
    /// visits each cell at most once (its visited set turns a revisit into the scan fallback), so
    /// `walk_steps <= min(step budget, live cells + 1)` - work proportional to the size of the
    /// triangulation and to the configured budget, whatever the geometry of the stored complex.
    fn locate_battery(&mut self, ctx: &mut StepCtx<'_, K, D>, slot: usize, post: &Snap) {
        let mut rng = Rng::sub(ctx.header.run_seed, "c19-locate", ctx.oprec.idx);
        if post.cells.is_empty() || !rng.chance(1, 3) {
            return;
        }
        let Some(dt) = ctx.world.objs.get(slot).and_then(|o| o.as_ref()).cloned() else { return };
        let kernel = K::default();
        let cells = post.cells.len();
        let mut queries: Vec<Vec<f64>> = Vec::new();
        let v = &post.verts[rng.usize_below(post.verts.len())];
        let w = &post.verts[rng.usize_below(post.verts.len())];
        queries.push(v.coords.clone());
        queries.push(v.coords.iter().zip(&w.coords).map(|(a, b)| a / 2.0 + b / 2.0).collect());
        let mut far = w.coords.clone();
        let ax = rng.usize_below(D);
        far[ax] = if rng.chance(1, 2) { 1e300 } else { -3.5e7 };
        queries.push(far);
        let hints = [
            ("none", None),
            ("live", Some(ckey(post.cells[rng.usize_below(cells)].key))),
            ("fabricated", Some(ckey(0x0000_0077_0000_0031))),
        ];
        for q in &queries {
            if q.iter().any(|x| !x.is_finite()) {
                continue;
            }
            let mut arr = [0.0f64; D];
            arr.copy_from_slice(q);
            let point = Point::new(arr);
            for (hname, hint) in &hints {
                for budget in [None, Some(1usize), Some(2 + rng.usize_below(3))] {
                    let knobs: Vec<(String, usize)> = budget.map(|b| vec![("locate.max_steps".to_string(), b)]).unwrap_or_default();
                    delaunay::verif::knob::set_all(&knobs);
                    let r = catch_unwind(AssertUnwindSafe(|| locate_with_stats(dt.tds(), &kernel, &point, *hint)));
                    delaunay::verif::knob::set_all(&[]);
                    ctx.stats.executions += 1;
                    match r {
                        Err(p) => {
                            self.report(ctx, "locate_with_stats", hname, &p);
                            return;
                        }
                        Ok(Ok((_, st))) => {
                            let bound = budget.map_or(cells + 1, |b| b.min(cells + 1));
                            if st.walk_steps > bound {
                                push_violation(
                                    ctx.violations,
                                    violation("C19", "locate-walk-exceeds-bound", ctx.step, format!("hint={hname}|budget={}", budget.map_or("default".into(), |b| b.to_string())), format!("locate_with_stats({q:?}) walked {} steps with {} live cells and step budget {:?}", st.walk_steps, cells, budget)),
                                );
                                return;
                            }
                        }
                        Ok(Err(_)) => {}
                    }
                }
            }
        }
    }

    fn report(&self, ctx: &mut StepCtx<'_, K, D>, call: &str, hull: &str, payload: &Box<dyn std::any::Any + Send>) {
        let msg = payload.downcast_ref::<String>().cloned().or_else(|| payload.downcast_ref::<&str>().map(|s| (*s).to_string())).unwrap_or_else(|| "non-string panic payload".into());
        let first = msg.lines().next().unwrap_or("").to_string();
        let mut shape = String::new();
        for c in first.chars().take(120) {
            let c = if c.is_ascii_digit() { '#' } else { c };
            if !(c == '#' && shape.ends_with('#')) {
                shape.push(c);
            }
        }
        push_violation(ctx.violations, violation("C19", "panic", ctx.step, format!("op={call}|hull={hull}|{shape}"), format!("{call} on a {hull} hull view panicked: {msg}")));
    }
}

impl<K: SimKernel<D>, const D: usize> Monitor<K, D> for C19<K, D> {
    fn after(&mut self, ctx: &mut StepCtx<'_, K, D>, pre: Option<&Snap>, out: &Outcome, post: Option<&Snap>) {
        ctx.stats.evaluations += 1;
        let kind = ctx.oprec.op.kind();
        if out.kind != OutKind::Panic
            && let Some(post) = post
        {
            let slot = match &ctx.oprec.op {
                Op::CloneTo { target, .. } | Op::SaveLoad { target, .. } => Some(*target),
                op => op.obj(),
            };
            if let Some(slot) = slot {
                self.hull_battery(ctx, slot, post);
                self.locate_battery(ctx, slot, post);
            }
        }
        if out.kind == OutKind::Panic {
            let first_line = out.detail.lines().next().unwrap_or("").to_string();
            // strip run-specific values (keys, numbers) from the message for the signature
            let shape: String = first_line.chars().map(|c| if c.is_ascii_digit() { '#' } else { c }).collect();
            let shape = shape.chars().take(90).collect::<String>();
            let clause = if out.tag == "tick-ceiling" { "work-ceiling-exceeded" } else { "panic" };
            push_violation(
                ctx.violations,
                violation("C19", clause, ctx.step, format!("op={kind}|{shape}"), format!("{kind} panicked: {} (faults {:?}, knobs {:?})", out.detail, ctx.oprec.faults, ctx.oprec.knobs)),
            );
            return;
        }
        // non-finite coordinates are refused before they can enter a triangulation
        if let Some(post) = post {
            if let Some(v) = post.verts.iter().find(|v| v.coords.iter().any(|c| !c.is_finite())) {
                push_violation(
                    ctx.violations,
                    violation("C19", "non-finite-coordinate-entered", ctx.step, format!("op={kind}"), format!("vertex {:032x} has coordinates {:?} after {kind} -> {}", v.uuid, v.coords, out.class())),
                );
            }
            if let (Op::Insert { v, .. }, Some(pre)) = (&ctx.oprec.op, pre)
                && v.coords().iter().any(|c| !c.is_finite())
            {
                if out.kind == OutKind::Ok {
                    push_violation(ctx.violations, violation("C19", "non-finite-insertion-accepted", ctx.step, format!("op={kind}"), format!("insertion of {:?} reported success", v.coords())));
                } else if let Some(d) = pre.diff(post) {
                    push_violation(ctx.violations, violation("C19", "non-finite-insertion-changed-state", ctx.step, format!("op={kind}"), format!("refused insertion of {:?} changed the triangulation: {d}", v.coords())));
                }
            }
        }
        // every bounded loop reports, per iteration, its ordinal and the budget the library holds
        // for it (hook H-tick `iter`): an ordinal beyond that budget means the budget is not
        // enforced; a budget beyond the shipped constant (when the run sets no knob for it) means
        // the constant itself went away.
        {
            let knob_set = |name: &str| ctx.oprec.knobs.iter().any(|(k, _)| k == name);
            let debug_build = ctx.header.profile == "simdebug";
            for (kind_name, max_ord, max_budget, excess) in &out.loop_iters {
                let e = ctx.stats.counters.entry(format!("c19.max_iteration_ordinal.{kind_name}")).or_insert(0);
                *e = (*e).max(*max_ord);
                if *excess > 0 {
                    push_violation(
                        ctx.violations,
                        violation("C19", "loop-exceeds-its-budget", ctx.step, format!("op={kind}|loop={kind_name}"), format!("{kind}: loop {kind_name} entered iteration {max_ord} although the library's own budget for it is {max_budget} (excess {excess}; knobs {:?})", ctx.oprec.knobs)),
                    );
                }
                let shipped: Option<(u64, &str)> = match kind_name.as_str() {
                    "locate.walk" => Some((10_000, "locate.max_steps")),
                    "insert.cavity_iter" => Some((32, "insert.max_cavity_iterations")),
                    "insert.repair_iter" => Some((10, "insert.max_repair_iterations")),
                    "rebuild.attempt" => Some((if debug_build { 6 } else { 2 }, "rebuild.attempts")),
                    _ => None,
                };
                if let Some((limit, knob_name)) = shipped
                    && !knob_set(knob_name)
                    && *max_budget > limit
                {
                    push_violation(
                        ctx.violations,
                        violation("C19", "budget-larger-than-shipped", ctx.step, format!("op={kind}|loop={kind_name}"), format!("{kind}: loop {kind_name} runs under a budget of {max_budget}, the shipped constant is {limit}")),
                    );
                }
            }
        }
        ctx.stats.add("c19.max_ticks_seen", 0);
        let e = ctx.stats.counters.entry("c19.max_ticks_per_op".into()).or_insert(0);
        if out.ticks > *e {
            *e = out.ticks;
        }
    }
}
