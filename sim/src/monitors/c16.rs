//! C16 (history clauses only) — the toroidal domain stays in force over an object's whole life.
//!
//! Claimed: what depends on history, stored metadata, retries and injected failures —
//!   * every vertex stored in a triangulation built with a toroidal domain lies in the half-open
//!     fundamental box and is congruent (mod the periods) to a vertex the caller handed in with
//!     that UUID and data, after construction AND after every later insertion (including
//!     insertions that only succeed on a perturbation retry, or that fail and roll back);
//!   * the toroidal metadata survives every later operation and every clone;
//!   * the result of construction is a valid triangulation (reference Levels 1-3) of the wrapped
//!     points, exactly Delaunay where that is decidable; wrapping is idempotent (building again
//!     from the stored vertices changes no coordinate);
//!   * periodic image-point construction, *when it succeeds* (also under injected construction
//!     faults), is closed (no empty neighbour slot), has Euler characteristic 0 and holds each
//!     input point once.
//! Not claimed: exhaustive input coverage of the wrap arithmetic itself (a pure function).

use crate::big::Big;
use crate::exec::{self, OutKind, Outcome, SimKernel};
use crate::geom::{self, Tri};
use crate::history::{Monitor, StepCtx};
use crate::ops::{Op, VSpec};
use crate::refdt;
use crate::refval;
use crate::run::{push_violation, violation};
use crate::snap::Snap;
use std::cmp::Ordering;
use std::collections::BTreeMap;

const MIN_EXP: i32 = -1074;

#[derive(Clone)]
struct Torus {
    periods: Vec<f64>,
    periodic: bool,
    /// Debug rendering of `global_topology()` right after construction
    meta: String,
}

#[derive(Default)]
pub struct C16 {
    torus: BTreeMap<usize, Torus>,
    /// every vertex ever handed to the library, by UUID (a UUID may be offered more than once)
    inputs: BTreeMap<u128, Vec<(Vec<f64>, Option<i32>)>>,
}

fn big(v: f64) -> Big {
    Big::from_f64_scaled(v, MIN_EXP)
}

/// |d| mod l for d, l > 0 (binary long division; operands have at most ~1200 bits).
fn modulo(d: &Big, l: &Big) -> Big {
    let mut r = d.abs();
    if r.cmp(l) == Ordering::Less {
        return r;
    }
    let shift = r.bits() - l.bits();
    for sh in (0..=shift).rev() {
        let t = l.shl(sh);
        if r.cmp(&t) != Ordering::Less {
            r = r.sub(&t);
        }
    }
    r
}

/// Is `stored` congruent to `input` modulo `period`, up to `tol` (all exact)?
fn congruent(stored: f64, input: f64, period: f64, tol: f64) -> bool {
    let l = big(period);
    let d = big(input).sub(&big(stored));
    let r = modulo(&d, &l);
    let t = big(tol);
    r.cmp(&t) != Ordering::Greater || l.sub(&r).cmp(&t) != Ordering::Greater
}

impl C16 {
    fn note_input(&mut self, v: &VSpec) {
        let c = v.coords();
        if c.iter().all(|x| x.is_finite()) {
            self.inputs.entry(v.uuid.0).or_default().push((c, v.data));
        }
    }

    /// In-box, provenance and congruence of every stored vertex. `perturbed` = the operation may
    /// have used the documented perturbation retry (1e-8 x local scale x (axis+1)).
    fn check_vertices<K: SimKernel<D>, const D: usize>(&self, ctx: &mut StepCtx<'_, K, D>, t: &Torus, pre: Option<&Snap>, snap: &Snap, when: &str, out: &Outcome) {
        // did any insertion inside this call go through a perturbation retry (or a heuristic rebuild, which re-inserts everything)?
        let retried = out.tick_kinds.iter().any(|(k, _)| k == "insert.perturbation_retry" || k == "rebuild.attempt");
        let mode = if t.periodic { "periodic" } else { "canonicalized" };
        // scale of the documented perturbation: the bounding diagonal of the point set the
        // insertions run on - the box itself, or the 3^D image copies of it in periodic mode
        let diag: f64 = t.periods.iter().map(|p| p * p).sum::<f64>().sqrt() * if t.periodic { 3.0 } else { 1.0 };
        for v in &snap.verts {
            // a vertex that was already there, unchanged, was judged when it arrived
            if pre.is_some_and(|p| p.verts.iter().any(|o| o.uuid == v.uuid && o.data == v.data && crate::snap::coords_bits_eq(&o.coords, &v.coords))) {
                continue;
            }
            ctx.stats.evaluations += 1;
            for (ax, (&s, &l)) in v.coords.iter().zip(&t.periods).enumerate() {
                if !(s >= 0.0 && s < l) {
                    push_violation(
                        ctx.violations,
                        violation(
                            "C16",
                            "vertex-outside-fundamental-box",
                            ctx.step,
                            format!(
                                "mode={mode}|after={when}|{}|{}|retry={retried}",
                                if s == l { "equals-period" } else if s < 0.0 { "negative" } else { "beyond-period" },
                                // how far outside: within the documented perturbation (1e-8 x scale x (axis+1)) or not
                                if (if s < 0.0 { -s } else { s - l }) <= 1.0001e-8 * diag.max(1.0) * (ax as f64 + 1.0) { "by-at-most-a-perturbation" } else { "far" }
                            ),
                            format!("vertex {:032x} coordinate[{ax}] = {s:?} is not in [0, {l:?}) (periods {:?})", v.uuid, t.periods),
                        ),
                    );
                    return;
                }
            }
            let Some(cands) = self.inputs.get(&v.uuid) else {
                push_violation(ctx.violations, violation("C16", "invented-vertex", ctx.step, format!("mode={mode}|after={when}"), format!("vertex {:032x} was never handed to the library", v.uuid)));
                return;
            };
            let matches = |tolf: &dyn Fn(usize, f64) -> f64| {
                cands.iter().any(|(c, d)| *d == v.data && c.iter().zip(&v.coords).zip(&t.periods).enumerate().all(|(ax, ((x, s), l))| congruent(*s, *x, *l, tolf(ax, *l))))
            };
            // one rounding of `r + L` for negative inputs: at most one ulp of the period
            let exact = matches(&|_, l| l * 2.0f64.powi(-52));
            if exact {
                continue;
            }
            // periodic mode always applies its own (documented, clamped) per-vertex offset of a few 1e-10 L
            let perturbed = (retried && matches(&|ax, l| l * 2.0f64.powi(-52) + 1.0001e-8 * diag.max(1.0) * (ax as f64 + 1.0)))
                || (t.periodic && matches(&|_, l| l * 1e-9));
            if perturbed {
                ctx.stats.bump("c16.vertex_within_perturbation");
                continue;
            }
            let data_only = cands.iter().all(|(_, d)| *d != v.data);
            push_violation(
                ctx.violations,
                violation(
                    "C16",
                    if data_only { "vertex-data-changed" } else { "vertex-not-congruent-to-input" },
                    ctx.step,
                    // rebuild=true: the call fell back to the heuristic rebuild, which re-inserts (and re-perturbs) every stored vertex
                    format!("mode={mode}|after={when}|rebuild={}", out.tick_kinds.iter().any(|(k, _)| k == "rebuild.attempt")),
                    format!("vertex {:032x} stored at {:?} (data {:?}); inputs with that uuid: {:?}; periods {:?}", v.uuid, v.coords, v.data, cands, t.periods),
                ),
            );
            return;
        }
    }
}

impl<K: SimKernel<D>, const D: usize> Monitor<K, D> for C16 {
    fn before(&mut self, ctx: &mut StepCtx<'_, K, D>, _pre: Option<&Snap>) {
        match &ctx.oprec.op {
            Op::New { verts, .. } => {
                for v in verts {
                    self.note_input(v);
                }
            }
            Op::Insert { v, .. } | Op::FlipK1Insert { v, .. } => self.note_input(v),
            _ => {}
        }
    }

    #[allow(clippy::too_many_lines)]
    fn after(&mut self, ctx: &mut StepCtx<'_, K, D>, pre: Option<&Snap>, out: &Outcome, post: Option<&Snap>) {
        let op = ctx.oprec.op.clone();
        match &op {
            Op::New { obj, verts, ctor, .. } if ctor.starts_with("toroidal") => {
                self.torus.remove(obj);
                if out.kind != OutKind::Ok {
                    if out.kind == OutKind::Err {
                        ctx.stats.bump(if ctor.starts_with("toroidal_periodic") { "c16.periodic_construction_err" } else { "c16.canonicalized_construction_err" });
                    }
                    return;
                }
                let Some(post) = post else { return };
                let (mode, hex) = ctor.split_once(':').unwrap_or(("toroidal", ""));
                let periods: Vec<f64> = hex.split(',').filter_map(|h| u64::from_str_radix(h, 16).ok()).map(f64::from_bits).collect();
                let t = Torus { periods, periodic: mode == "toroidal_periodic", meta: post.policies[4].clone() };
                if !t.meta.contains("Toroidal") {
                    push_violation(ctx.violations, violation("C16", "toroidal-metadata-missing", ctx.step, format!("mode={mode}|after=new"), format!("global_topology() = {} after a toroidal build", t.meta)));
                }
                self.check_vertices(ctx, &t, None, post, "new", out);
                if t.periodic {
                    ctx.stats.bump("c16.periodic_built");
                    // closed surface: every neighbour slot filled, chi = V - E + F = V - F/2 = 0 in 2D
                    let open = post.cells.iter().filter(|c| c.nbrs.as_ref().is_none_or(|n| n.iter().any(Option::is_none))).count();
                    if open > 0 {
                        push_violation(ctx.violations, violation("C16", "periodic-result-has-boundary", ctx.step, "mode=periodic".into(), format!("{open} of {} cells have an empty neighbour slot", post.cells.len())));
                    } else if D == 2 && post.cells.len() != 2 * post.verts.len() {
                        push_violation(
                            ctx.violations,
                            violation("C16", "periodic-euler-characteristic", ctx.step, "mode=periodic".into(), format!("V = {}, F = {}: chi = V - F/2 = {} (expected 0)", post.verts.len(), post.cells.len(), post.verts.len() as i64 - post.cells.len() as i64 / 2)),
                        );
                    }
                    // Euler characteristic of the quotient complex, edges counted with the lattice
                    // offsets the cells carry: an edge is a vertex pair together with the relative
                    // image offset between its ends (so two edges between the same two vertices that
                    // wrap around the torus differently stay distinct). chi = V - E + F must be 0.
                    if D == 2
                        && open == 0
                        && let Some(dt) = ctx.world.objs.first().and_then(|o| o.as_ref())
                    {
                        let mut edges: std::collections::BTreeSet<(u64, u64, Vec<i32>)> = std::collections::BTreeSet::new();
                        let mut have_offsets = true;
                        let mut listing: Vec<String> = Vec::new();
                        for (_, cell) in dt.cells() {
                            if listing.len() < 40 {
                                listing.push(format!("{:x?}@{:?}", cell.vertices().iter().map(|k| slotmap::Key::data(k).as_ffi() & 0xffff).collect::<Vec<_>>(), cell.periodic_vertex_offsets()));
                            }
                            let vs: Vec<u64> = cell.vertices().iter().map(|k| slotmap::Key::data(k).as_ffi()).collect();
                            let Some(offs) = cell.periodic_vertex_offsets() else {
                                have_offsets = false;
                                break;
                            };
                            for i in 0..vs.len() {
                                for j in (i + 1)..vs.len() {
                                    let (a, b, oa, ob) = if vs[i] <= vs[j] { (vs[i], vs[j], &offs[i], &offs[j]) } else { (vs[j], vs[i], &offs[j], &offs[i]) };
                                    let mut rel: Vec<i32> = (0..D).map(|x| i32::from(ob[x]) - i32::from(oa[x])).collect();
                                    if a == b {
                                        // a loop edge: its two orientations are the same edge
                                        if let Some(first) = rel.iter().find(|x| **x != 0)
                                            && *first < 0
                                        {
                                            for x in rel.iter_mut() {
                                                *x = -*x;
                                            }
                                        }
                                    }
                                    edges.insert((a, b, rel));
                                }
                            }
                        }
                        if have_offsets {
                            ctx.stats.evaluations += 1;
                            let (v, e, f) = (post.verts.len() as i64, edges.len() as i64, post.cells.len() as i64);
                            if v - e + f != 0 {
                                push_violation(
                                    ctx.violations,
                                    violation("C16", "periodic-quotient-not-a-closed-torus", ctx.step, format!("mode=periodic|square={}", t.periods.windows(2).all(|w| w[0] == w[1])), format!("V = {v}, E = {e} (edges counted with their lattice offsets), F = {f}: chi = {} (expected 0); periods {:?}; cells {}", v - e + f, t.periods, listing.join(" "))),
                                );
                            }
                        } else {
                            ctx.stats.bump("c16.periodic_result_without_offsets");
                        }
                    }
                    // each input point once: a missing input must coincide (mod periods) with a stored vertex
                    let Op::New { opts, .. } = &op else { return };
                    for i in verts.iter().filter(|_| opts.dedup != "Epsilon") {
                        if post.verts.iter().any(|v| v.uuid == i.uuid.0) {
                            continue;
                        }
                        let c = i.coords();
                        let dup = post.verts.iter().any(|v| c.iter().zip(&v.coords).zip(&t.periods).all(|((x, s), l)| congruent(*s, *x, *l, 1.0001e-10 + l * 2.0f64.powi(-52))));
                        if !dup {
                            push_violation(ctx.violations, violation("C16", "periodic-input-point-missing", ctx.step, "mode=periodic".into(), format!("input {:032x} at {:?} is absent and no stored vertex coincides with it modulo {:?}", i.uuid.0, c, t.periods)));
                            break;
                        }
                    }
                    // periodic objects are construction-only here
                    return;
                }
                ctx.stats.bump("c16.canonicalized_built");
                // certified triangulation of the wrapped points
                let rv = refval::validate(post, crate::monitors::valid::strength_of(post), true);
                ctx.stats.abstained += rv.abstained as u64;
                if !rv.ok() || rv.geo_positive == Some(false) {
                    push_violation(
                        ctx.violations,
                        violation("C16", "invalid-toroidal-construction-result", ctx.step, format!("kind={}", rv.first().map_or("geo", |x| x.kind)), rv.first().map_or("orientation".to_string(), |v| format!("L{} {}: {}", v.level, v.kind, v.detail))),
                    );
                } else if geom::embedded(post, &rv) == Tri::Yes {
                    let rd = refdt::check(post);
                    ctx.stats.abstained += rd.abstained as u64;
                    if out.predicate_failure_absorbed() {
                        ctx.stats.bump("c16.delaunay_clause_not_judged_predicate_failure_absorbed");
                    } else if !rd.violations.is_empty() {
                        push_violation(
                            ctx.violations,
                            violation("C16", "toroidal-construction-not-delaunay", ctx.step, format!("d={D}|{}", rd.violation_class()), format!("{} exact empty-circumsphere violations among the wrapped points", rd.violations.len())),
                        );
                    }
                }
                // idempotence: building again from the stored vertices moves nothing
                let all_in_box = post.verts.iter().all(|v| v.coords.iter().zip(&t.periods).all(|(s, l)| *s >= 0.0 && s < l));
                if all_in_box && let Some(Some(dt)) = ctx.world.objs.get(*obj) {
                    let again: Vec<VSpec> = dt.vertices().map(|(_, v)| VSpec::new(v.point().coords(), v.uuid().as_u128(), v.data)).collect();
                    let op2 = Op::New { obj: *obj, verts: again.clone(), ctor: ctor.clone(), tg: "PLManifold".into(), opts: crate::ops::Opts::default() };
                    let mut plan = ctx.plan(&[]);
                    plan.uuid_seed = crate::rng::derive(ctx.header.run_seed, "c16-again", ctx.oprec.idx);
                    let b = exec::construct::<K, D>(&plan, &op2);
                    ctx.stats.executions += 1;
                    if let Some(dt2) = b.dt {
                        let by: BTreeMap<u128, Vec<u64>> = again.iter().map(|v| (v.uuid.0, v.bits.clone())).collect();
                        for (_, v) in dt2.vertices() {
                            let bits: Vec<u64> = v.point().coords().iter().map(|c| c.to_bits()).collect();
                            if by.get(&v.uuid().as_u128()).is_some_and(|b0| *b0 != bits) {
                                // the second build may perturb on a retry (1e-8 x local scale x (axis+1));
                                // a re-wrap moves a coordinate by about a whole period
                                let diag: f64 = t.periods.iter().map(|p| p * p).sum::<f64>().sqrt().max(1.0);
                                let moved_far = by[&v.uuid().as_u128()].iter().zip(&bits).enumerate().any(|(ax, (a, b))| (f64::from_bits(*a) - f64::from_bits(*b)).abs() > 1.0001e-8 * diag * (ax as f64 + 1.0));
                                if moved_far {
                                    push_violation(ctx.violations, violation("C16", "wrapping-not-idempotent", ctx.step, "mode=canonicalized".into(), format!("vertex {:032x}: {:?} -> {:?} when built again", v.uuid().as_u128(), by[&v.uuid().as_u128()].iter().map(|b| f64::from_bits(*b)).collect::<Vec<_>>(), v.point().coords())));
                                    break;
                                }
                            }
                        }
                    }
                }
                self.torus.insert(*obj, t);
            }
            Op::New { obj, .. } | Op::Empty { obj, .. } => {
                self.torus.remove(obj);
            }
            Op::CloneTo { obj, target } => {
                if out.kind == OutKind::Ok {
                    match self.torus.get(obj).cloned() {
                        Some(t) => {
                            if let Some(post) = post
                                && post.policies[4] != t.meta
                            {
                                push_violation(ctx.violations, violation("C16", "toroidal-metadata-lost", ctx.step, "after=clone".into(), format!("clone reports global_topology() = {}, source {}", post.policies[4], t.meta)));
                                self.torus.remove(target);
                                return;
                            }
                            self.torus.insert(*target, t);
                        }
                        None => {
                            self.torus.remove(target);
                        }
                    }
                }
            }
            Op::SaveLoad { target, .. } => {
                // the global topology is documented as not serialised
                if out.kind == OutKind::Ok {
                    self.torus.remove(target);
                }
            }
            other => {
                let Some(obj) = other.obj() else { return };
                let Some(t) = self.torus.get(&obj).cloned() else { return };
                let (Some(_), Some(post)) = (pre, post) else { return };
                let when = other.kind();
                if post.policies[4] != t.meta {
                    push_violation(ctx.violations, violation("C16", "toroidal-metadata-lost", ctx.step, format!("after={when}|result={}", out.class()), format!("global_topology() = {} after {when} -> {}; was {}", post.policies[4], out.class(), t.meta)));
                    // report the loss once, at the operation that caused it
                    self.torus.remove(&obj);
                    return;
                }
                self.check_vertices(ctx, &t, pre, post, when, out);
                if matches!(other, Op::Insert { .. }) && out.kind == OutKind::Ok {
                    ctx.stats.bump("c16.later_insert_ok");
                }
            }
        }
    }
}
