pub mod c03;
pub mod c04;
pub mod c15;
pub mod valid;
