pub mod c03;
