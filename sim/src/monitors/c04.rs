//! C04 — a passing Delaunay check means the empty-circumsphere property really holds
//! (soundness), and on strictly Delaunay triangulations nothing is rejected (completeness).

use crate::exec::{OutKind, Outcome, SimKernel};
use crate::geom::{self, Tri};
use crate::history::{Monitor, StepCtx};
use crate::refdt;
use crate::refval;
use crate::run::{push_violation, violation};
use crate::snap::Snap;
use delaunay::core::util::find_delaunay_violations;

pub struct C04;

impl<K: SimKernel<D>, const D: usize> Monitor<K, D> for C04 {
    fn after(&mut self, ctx: &mut StepCtx<'_, K, D>, _pre: Option<&Snap>, out: &Outcome, post: Option<&Snap>) {
        let Some(post) = post else { return };
        if matches!(out.kind, OutKind::Unresolved | OutKind::Panic) || post.cells.is_empty() {
            return;
        }
        let obj = match &ctx.oprec.op {
            crate::ops::Op::CloneTo { target, .. } | crate::ops::Op::SaveLoad { target, .. } => Some(*target),
            op => op.obj(),
        };
        let Some(obj) = obj else { return };
        let Some(dt) = ctx.world.objs.get(obj).and_then(|o| o.as_ref()) else { return };
        let strength = crate::monitors::valid::strength_of(post);
        let rv = refval::validate(post, strength, true);
        let emb = geom::embedded(post, &rv);
        if emb != Tri::Yes {
            ctx.stats.bump(if emb == Tri::No { "c04.state_not_a_geometric_triangulation" } else { "c04.state_undecided" });
            return;
        }
        let rd = refdt::check(post);
        ctx.stats.abstained += rd.abstained as u64;
        ctx.stats.evaluations += 1;
        let kind = ctx.oprec.op.kind();
        // library verdicts (all read-only)
        let verdicts: Vec<(&str, bool, String)> = {
            let mut v = Vec::new();
            let r = dt.is_valid();
            v.push(("is_valid", r.is_ok(), r.err().map_or(String::new(), |e| e.to_string())));
            let r = dt.validate();
            v.push(("validate", r.is_ok(), r.err().map_or(String::new(), |e| e.to_string())));
            let r = dt.validation_report();
            v.push(("validation_report", r.is_ok(), r.err().map_or(String::new(), |e| format!("{} violations", e.violations.len()))));
            let r = dt.is_delaunay_via_flips();
            v.push(("is_delaunay_via_flips", r.is_ok(), r.err().map_or(String::new(), |e| e.to_string())));
            match find_delaunay_violations(dt.tds(), None) {
                Ok(list) => v.push(("find_delaunay_violations", list.is_empty(), format!("{} cells", list.len()))),
                Err(e) => v.push(("find_delaunay_violations", false, e.to_string())),
            }
            v
        };
        ctx.stats.add("c04.verdicts", verdicts.len() as u64);
        if !rd.violations.is_empty() {
            ctx.stats.bump("c04.non_delaunay_states");
            for (name, ok, _) in &verdicts {
                if *ok {
                    push_violation(
                        ctx.violations,
                        violation(
                            "C04",
                            "accepted-non-delaunay",
                            ctx.step,
                            format!("verdict={name}|after={kind}|d={}|{}", D, rd.violation_class()),
                            format!(
                                "{name} accepts a valid geometric triangulation in which {} (cell,vertex) pairs violate the empty-circumsphere property exactly (abstained {}), e.g. cell {:#x} vertex {:#x}",
                                rd.violations.len(), rd.abstained, rd.violations[0].0, rd.violations[0].1
                            ),
                        ),
                    );
                }
            }
        } else if rd.strict {
            ctx.stats.bump("c04.strictly_delaunay_states");
            for (name, ok, why) in &verdicts {
                if !*ok {
                    push_violation(
                        ctx.violations,
                        violation(
                            "C04",
                            "rejected-delaunay",
                            ctx.step,
                            format!("verdict={name}|after={kind}|d={}", D),
                            format!("{name} rejects a valid, strictly Delaunay triangulation (every other vertex exactly strictly outside every circumsphere): {why}"),
                        ),
                    );
                }
            }
        } else {
            ctx.stats.bump("c04.weakly_delaunay_or_abstained_states");
        }
        // report empty exactly when cumulative validation passes
        let validate_ok = verdicts[1].1;
        let report_ok = verdicts[2].1;
        if validate_ok != report_ok {
            push_violation(
                ctx.violations,
                violation("C04", "report-disagrees-with-validate", ctx.step, format!("after={kind}"), format!("validate ok={validate_ok}, validation_report ok={report_ok}")),
            );
        }
    }
}
