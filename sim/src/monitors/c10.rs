//! C10 — point location returns a cell that really contains the query point, independent of
//! the hint (none, live, stale, fabricated) and of the walk budget (knob `locate.max_steps`,
//! which forces the step-limit → scan fallback that small meshes never reach on their own).

use crate::exec::{ckey, OutKind, Outcome, SimKernel};
use crate::geom::{self, Tri};
use crate::history::{Monitor, StepCtx};
use crate::refval;
use crate::rng::Rng;
use crate::run::{push_violation, violation};
use crate::snap::Snap;
use delaunay::core::algorithms::locate::{locate, locate_with_stats, LocateResult};
use delaunay::geometry::point::Point;
use delaunay::geometry::traits::coordinate::Coordinate;
use slotmap::Key;

pub struct C10 {
    pub stale: Vec<u64>,
}

fn class_of(r: &Result<LocateResult, delaunay::core::algorithms::locate::LocateError>) -> String {
    match r {
        Ok(LocateResult::Outside) => "Outside".into(),
        Ok(LocateResult::InsideCell(_) | LocateResult::OnFacet(_, _) | LocateResult::OnEdge(_) | LocateResult::OnVertex(_)) => "Located".into(),
        Err(e) => format!("Err({})", format!("{e:?}").split(|c: char| !c.is_alphanumeric()).next().unwrap_or("")),
    }
}

impl<K: SimKernel<D>, const D: usize> Monitor<K, D> for C10 {
    #[allow(clippy::too_many_lines)]
    fn after(&mut self, ctx: &mut StepCtx<'_, K, D>, pre: Option<&Snap>, out: &Outcome, post: Option<&Snap>) {
        if let Some(p) = pre {
            for c in &p.cells {
                if self.stale.len() < 48 && !self.stale.contains(&c.key) {
                    self.stale.push(c.key);
                }
            }
        }
        let Some(post) = post else { return };
        if matches!(out.kind, OutKind::Unresolved | OutKind::Panic) || post.cells.is_empty() {
            return;
        }
        let obj = match &ctx.oprec.op {
            crate::ops::Op::CloneTo { target, .. } | crate::ops::Op::SaveLoad { target, .. } => Some(*target),
            op => op.obj(),
        };
        let Some(obj) = obj else { return };
        let Some(dt_owned) = ctx.world.objs.get(obj).and_then(|o| o.as_ref()).cloned() else { return };
        let dt = &dt_owned;
        let rv = refval::validate(post, crate::monitors::valid::strength_of(post), false);
        if geom::embedded(post, &rv) != Tri::Yes {
            ctx.stats.bump("c10.state_not_a_geometric_triangulation");
            return;
        }
        let kernel = K::default();
        let mut rng = Rng::sub(ctx.header.run_seed, "locate", ctx.oprec.idx);
        let kind = ctx.oprec.op.kind();
        // query points: vertices, cell centroids (float), midpoints, pool-like random grid points, far points
        let mut queries: Vec<Vec<f64>> = Vec::new();
        for _ in 0..3 {
            let v = &post.verts[rng.usize_below(post.verts.len())];
            queries.push(v.coords.clone());
            let w = &post.verts[rng.usize_below(post.verts.len())];
            queries.push(v.coords.iter().zip(&w.coords).map(|(a, b)| (a + b) / 2.0).collect());
            let mut far = v.coords.clone();
            let i = rng.usize_below(D);
            far[i] += if rng.chance(1, 2) { 1000.0 } else { -1000.0 } * (1.0 + far[i].abs());
            queries.push(far);
        }
        {
            let c = &post.cells[rng.usize_below(post.cells.len())];
            let coords = post.key_to_coords();
            let mut cen = vec![0.0; D];
            for k in &c.verts {
                if let Some(p) = coords.get(k) {
                    for i in 0..D {
                        cen[i] += p[i] / (D as f64 + 1.0);
                    }
                }
            }
            queries.push(cen);
        }
        // (start cell x target cell) sweep on small meshes: the centroid of every cell located from
        // every live cell as hint. The walk's path - and whether it circles a ring of cells before
        // its revisit check sends it to the scan - depends on exactly this pair.
        let pinwheel = ctx.header.family == "pinwheel";
        if post.cells.len() <= 16 && (pinwheel || rng.chance(1, 3)) {
            sweep_start_target::<K, D>(ctx, &dt_owned, post, &kind);
        }
        // flip-graph neighbourhood: every triangulation of the same points reachable by a few
        // embedding-preserving k=2 flips is swept as well (small point sets only)
        if post.cells.len() <= 10 && D <= 3 && (pinwheel || rng.chance(1, 6)) {
            flip_graph_sweep::<K, D>(ctx, &dt_owned, post, &kind);
        }
        for q in queries {
            if q.iter().any(|x| !x.is_finite()) {
                continue;
            }
            let mut arr = [0.0f64; D];
            arr.copy_from_slice(&q);
            let point = Point::new(arr);
            let pos = geom::hull_position(post, &q);
            if !pos.decidable {
                ctx.stats.abstained += 1;
                continue;
            }
            // hints: none, a live cell, a stale key, a fabricated key; knobs: default and tiny budgets
            let mut hints: Vec<(String, Option<delaunay::core::triangulation_data_structure::CellKey>)> = vec![("none".into(), None)];
            hints.push(("live".into(), Some(ckey(post.cells[rng.usize_below(post.cells.len())].key))));
            if !self.stale.is_empty() {
                hints.push(("stale".into(), Some(ckey(*rng.pick(&self.stale)))));
            }
            hints.push(("fabricated".into(), Some(ckey(0x0000_0042_0000_0099))));
            let budgets: [Option<usize>; 3] = [None, Some(1), Some(1 + rng.usize_below(3))];
            let mut classes: Vec<(String, String)> = Vec::new();
            for (hname, hint) in &hints {
                for b in budgets {
                    let knobs: Vec<(String, usize)> = b.map(|v| vec![("locate.max_steps".to_string(), v)]).unwrap_or_default();
                    delaunay::verif::knob::set_all(&knobs);
                    let r = std::panic::catch_unwind(std::panic::AssertUnwindSafe(|| {
                        (locate(dt.tds(), &kernel, &point, *hint), locate_with_stats(dt.tds(), &kernel, &point, *hint))
                    }));
                    delaunay::verif::knob::set_all(&[]);
                    ctx.stats.executions += 2;
                    ctx.stats.evaluations += 1;
                    let Ok((r, rs)) = r else {
                        push_violation(ctx.violations, violation("C10", "locate-panicked", ctx.step, format!("hint={hname}|budget={b:?}"), format!("locate panicked for q={q:?}")));
                        continue;
                    };
                    if let Ok((_, st)) = &rs
                        && let Some(fb) = &st.fallback
                    {
                        ctx.stats.bump(&format!("c10.fallback.{:?}", fb.reason));
                    }
                    let label = format!("hint={hname}|budget={}", b.map_or("default".to_string(), |v| v.to_string()));
                    classes.push((label.clone(), class_of(&r)));
                    // stats variant returns the same result
                    let same = match (&r, &rs) {
                        (Ok(a), Ok((b2, _))) => a == b2,
                        (Err(_), Err(_)) => true,
                        _ => false,
                    };
                    if !same {
                        push_violation(ctx.violations, violation("C10", "stats-variant-differs", ctx.step, label.clone(), format!("locate={r:?} locate_with_stats={:?}", rs.as_ref().map(|x| x.0))));
                    }
                    match &r {
                        Ok(LocateResult::Outside) => {
                            if pos.inside_or_on() {
                                push_violation(
                                    ctx.violations,
                                    violation("C10", "outside-but-inside-hull", ctx.step, format!("{label}|after={kind}"), format!("locate says Outside for q={q:?}, which is exactly inside or on the hull (no boundary facet sees it)")),
                                );
                            }
                        }
                        Ok(LocateResult::InsideCell(c) | LocateResult::OnFacet(c, _) | LocateResult::OnEdge(c)) => {
                            let key = c.data().as_ffi();
                            match geom::in_cell(post, key, &q) {
                                Some((inside, true)) => {
                                    if !inside {
                                        push_violation(
                                            ctx.violations,
                                            violation("C10", "cell-does-not-contain-point", ctx.step, format!("{label}|after={kind}|hull={}", if pos.strictly_outside() { "outside" } else { "inside" }), format!("locate returned cell {key:#x} for q={q:?} but q is exactly outside its closed simplex (strictly outside hull: {})", pos.strictly_outside())),
                                        );
                                    }
                                }
                                Some((_, false)) => ctx.stats.abstained += 1,
                                None => push_violation(ctx.violations, violation("C10", "dead-cell-returned", ctx.step, label.clone(), format!("locate returned non-live cell {key:#x}"))),
                            }
                        }
                        Ok(LocateResult::OnVertex(vk)) => {
                            let key = vk.data().as_ffi();
                            let ok = post.vertex_by_key(key).is_some_and(|v| crate::snap::coords_bits_eq(&v.coords, &q) || v.coords == q);
                            if !ok {
                                push_violation(ctx.violations, violation("C10", "on-vertex-wrong", ctx.step, label.clone(), format!("OnVertex({key:#x}) for q={q:?}")));
                            }
                        }
                        Err(e) => {
                            push_violation(ctx.violations, violation("C10", "locate-error-on-valid-triangulation", ctx.step, format!("{label}|after={kind}"), format!("locate failed on a valid triangulation for q={q:?}: {e}")));
                        }
                    }
                }
            }
            // answer class independent of hint and budget
            if let Some((l0, c0)) = classes.first().cloned() {
                for (l, c) in &classes {
                    if *c != c0 {
                        push_violation(
                            ctx.violations,
                            violation("C10", "answer-depends-on-hint-or-budget", ctx.step, format!("{l0} vs {l}|after={kind}"), format!("q={q:?}: {l0} -> {c0}, {l} -> {c}")),
                        );
                        break;
                    }
                }
            }
        }
    }
}

/// (start cell x target cell) sweep: the centroid of every cell, and a point towards each of its
/// vertices, located from every live cell as hint. The walk's path - and whether it circles a ring
/// of cells before its revisit check sends it to the scan - depends on exactly this pair.
fn sweep_start_target<K: SimKernel<D>, const D: usize>(ctx: &mut StepCtx<'_, K, D>, dt: &crate::snap::Dt<K, D>, post: &Snap, kind: &str) {
    let kernel = K::default();
        let coords = post.key_to_coords();
        for target in &post.cells {
            let mut cen = vec![0.0; D];
            let mut ok = true;
            for k in &target.verts {
                match coords.get(k) {
                    Some(p) => {
                        for i in 0..D {
                            cen[i] += p[i] / (D as f64 + 1.0);
                        }
                    }
                    None => ok = false,
                }
            }
            if !ok || cen.iter().any(|x| !x.is_finite()) {
                continue;
            }
            // the centroid and one point towards each vertex of the target cell
            let mut targets: Vec<Vec<f64>> = vec![cen.clone()];
            for k in &target.verts {
                if let Some(p) = coords.get(k) {
                    targets.push(cen.iter().zip(p.iter()).map(|(c, v)| 0.25 * c + 0.75 * v).collect());
                }
            }
            for cen in targets {
            let mut arr = [0.0f64; D];
            arr.copy_from_slice(&cen);
            let point = Point::new(arr);
            for start in &post.cells {
                let r = std::panic::catch_unwind(std::panic::AssertUnwindSafe(|| locate_with_stats(dt.tds(), &kernel, &point, Some(ckey(start.key)))));
                ctx.stats.executions += 1;
                ctx.stats.evaluations += 1;
                let Ok(r) = r else {
                    push_violation(ctx.violations, violation("C10", "locate-panicked", ctx.step, "sweep".into(), format!("locate panicked for q={cen:?}")));
                    continue;
                };
                match r {
                    Ok((LocateResult::InsideCell(c) | LocateResult::OnFacet(c, _) | LocateResult::OnEdge(c), st)) => {
                        if let Some(fb) = &st.fallback {
                            ctx.stats.bump(&format!("c10.fallback.{:?}", fb.reason));
                        }
                        let key = c.data().as_ffi();
                        match geom::in_cell(post, key, &cen) {
                            Some((false, true)) => push_violation(
                                ctx.violations,
                                violation("C10", "cell-does-not-contain-point", ctx.step, format!("sweep|hint=live|budget=default|after={kind}"), format!("locate from start cell {:#x} returned cell {key:#x} for the centroid {cen:?} of cell {:#x}, which is exactly outside its closed simplex", start.key, target.key)),
                            ),
                            Some((_, false)) => ctx.stats.abstained += 1,
                            _ => {}
                        }
                    }
                    Ok((LocateResult::Outside, _)) => {
                        let pos = geom::hull_position(post, &cen);
                        if pos.decidable && pos.inside_or_on() {
                            push_violation(
                                ctx.violations,
                                violation("C10", "outside-but-inside-hull", ctx.step, format!("sweep|hint=live|budget=default|after={kind}"), format!("locate from start cell {:#x} says Outside for the centroid {cen:?} of cell {:#x}", start.key, target.key)),
                            );
                        }
                    }
                    _ => {}
                }
            }
            }
        }
        ctx.stats.bump("c10.start_target_sweeps");
}

/// Breadth-first over the flip graph of the current point set (embedding-preserving k=2 flips
/// only, decided exactly), on clones: depth <= 3, at most 48 distinct triangulations; each is
/// swept with `sweep_start_target`. Deterministic: library UUIDs are seeded per visited state.
fn flip_graph_sweep<K: SimKernel<D>, const D: usize>(ctx: &mut StepCtx<'_, K, D>, dt: &crate::snap::Dt<K, D>, post: &Snap, kind: &str) {
    use delaunay::core::facet::FacetHandle;
    use delaunay::triangulation::flips::BistellarFlips;
    let mut seen: std::collections::BTreeSet<u64> = std::collections::BTreeSet::new();
    seen.insert(post.canonical().hash64());
    let mut frontier: Vec<(crate::snap::Dt<K, D>, Snap, usize)> = vec![(dt.clone(), post.clone(), 0)];
    let mut visited = 0u64;
    while let Some((cur, snap, depth)) = frontier.pop() {
        if depth >= 3 || seen.len() >= 48 {
            continue;
        }
        for (cell, facet) in crate::generate::embedded_k2_candidates(&snap, D) {
            if seen.len() >= 48 {
                break;
            }
            let mut next = cur.clone();
            visited += 1;
            let plan = crate::exec::Plan { faults: Vec::new(), knobs: Vec::new(), uuid_seed: crate::rng::derive(ctx.header.run_seed, "c10-flipgraph", ctx.oprec.idx * 4096 + visited), tick_limit: 0 };
            let out = crate::exec::with_plan(&plan, || match next.flip_k2(FacetHandle::new(ckey(cell), facet)) {
                Ok(_) => crate::exec::Outcome::unresolved("x").ok_as("flip"),
                Err(e) => crate::exec::Outcome::unresolved("x").err_as("flip", e.to_string()),
            });
            ctx.stats.executions += 1;
            if out.kind != OutKind::Ok {
                continue;
            }
            let Ok(ns) = std::panic::catch_unwind(std::panic::AssertUnwindSafe(|| Snap::of(&next))) else { continue };
            if !seen.insert(ns.canonical().hash64()) {
                continue;
            }
            let rv = refval::validate(&ns, crate::monitors::valid::strength_of(&ns), false);
            if geom::embedded(&ns, &rv) != Tri::Yes {
                continue;
            }
            sweep_start_target::<K, D>(ctx, &next, &ns, kind);
            ctx.stats.bump("c10.flip_graph_states_swept");
            frontier.insert(0, (next, ns, depth + 1));
        }
    }
}
