//! C15 — topology and adjacency queries agree with the stored complex.
//!
//! After every step of every history the queries (which walk cached `incident_cell` pointers and
//! neighbour slots) are compared with a brute-force enumeration of the faces of the stored cells.

use crate::exec::{ckey, vkey, OutKind, Outcome, SimKernel};
use crate::history::{Monitor, StepCtx};
use crate::refval::{self, Strength};
use crate::run::{push_violation, violation};
use crate::snap::{Dt, Snap};
use delaunay::core::traits::boundary_analysis::BoundaryAnalysis;
use delaunay::topology::characteristics::euler::{
    classify_triangulation, count_boundary_simplices, count_simplices, euler_characteristic, TopologyClassification,
};
use delaunay::topology::characteristics::validation::validate_triangulation_euler;
use slotmap::Key;
use std::collections::{BTreeMap, BTreeSet};

pub struct C15;

fn edge_pair(a: u64, b: u64) -> (u64, u64) {
    if a <= b { (a, b) } else { (b, a) }
}

/// Counts and edge sets only (every valid complex, closed ones included): the stored cells'
/// vertex pairs against `edges()`, `number_of_edges()` and the adjacency-index variants; vertex
/// and cell counts against the stores.
fn compare_counts<K: SimKernel<D>, const D: usize>(dt: &Dt<K, D>, s: &Snap) -> Vec<(String, String)> {
    let mut bad: Vec<(String, String)> = Vec::new();
    let mut edges: BTreeSet<(u64, u64)> = BTreeSet::new();
    for c in &s.cells {
        for (i, a) in c.verts.iter().enumerate() {
            for b in &c.verts[i + 1..] {
                edges.insert(edge_pair(*a, *b));
            }
        }
    }
    let tri = dt.as_triangulation();
    let got: BTreeSet<(u64, u64)> = dt
        .edges()
        .map(|e| {
            let (a, b) = e.endpoints();
            edge_pair(a.data().as_ffi(), b.data().as_ffi())
        })
        .collect();
    if got != edges {
        bad.push(("edges".into(), format!("edges() has {} edges, enumeration {}", got.len(), edges.len())));
    }
    if tri.number_of_edges() != edges.len() {
        bad.push(("number_of_edges".into(), format!("{} vs {}", tri.number_of_edges(), edges.len())));
    }
    if dt.number_of_vertices() != s.verts.len() || dt.number_of_cells() != s.cells.len() {
        bad.push(("number_of_vertices_or_cells".into(), format!("{} / {} vs {} / {}", dt.number_of_vertices(), dt.number_of_cells(), s.verts.len(), s.cells.len())));
    }
    if let Ok(ix) = dt.build_adjacency_index() {
        let got: BTreeSet<(u64, u64)> = dt
            .edges_with_index(&ix)
            .map(|e| {
                let (a, b) = e.endpoints();
                edge_pair(a.data().as_ffi(), b.data().as_ffi())
            })
            .collect();
        if got != edges {
            bad.push(("edges_with_index".into(), format!("{} vs {}", got.len(), edges.len())));
        }
        if tri.number_of_edges_with_index(&ix) != edges.len() || ix.number_of_edges() != edges.len() {
            bad.push(("number_of_edges_with_index".into(), format!("{} / {} vs {}", tri.number_of_edges_with_index(&ix), ix.number_of_edges(), edges.len())));
        }
    }
    bad
}

#[allow(clippy::too_many_lines)]
fn compare<K: SimKernel<D>, const D: usize>(dt: &Dt<K, D>, s: &Snap, stale: &[u64]) -> Vec<(String, String)> {
    let mut bad: Vec<(String, String)> = Vec::new();
    let mut fail = |what: &str, detail: String| {
        if bad.len() < 8 {
            bad.push((what.to_string(), detail));
        }
    };
    // brute force
    let mut edges: BTreeSet<(u64, u64)> = BTreeSet::new();
    let mut star: BTreeMap<u64, BTreeSet<u64>> = BTreeMap::new();
    let mut vedges: BTreeMap<u64, BTreeSet<(u64, u64)>> = BTreeMap::new();
    for c in &s.cells {
        for (i, a) in c.verts.iter().enumerate() {
            star.entry(*a).or_default().insert(c.key);
            for b in &c.verts[i + 1..] {
                let e = edge_pair(*a, *b);
                edges.insert(e);
                vedges.entry(*a).or_default().insert(e);
                vedges.entry(*b).or_default().insert(e);
            }
        }
    }
    let fmap = refval::facet_map(s);
    let mut nbrs: BTreeMap<u64, BTreeSet<u64>> = BTreeMap::new();
    for info in fmap.values() {
        if info.incident.len() == 2 {
            let (a, b) = (info.incident[0].0, info.incident[1].0);
            nbrs.entry(a).or_default().insert(b);
            nbrs.entry(b).or_default().insert(a);
        }
    }
    let boundary: BTreeSet<(u64, usize)> =
        fmap.values().filter(|i| i.incident.len() == 1).map(|i| i.incident[0]).collect();

    let tri = dt.as_triangulation();
    // edges
    let got: BTreeSet<(u64, u64)> = dt
        .edges()
        .map(|e| {
            let (a, b) = e.endpoints();
            edge_pair(a.data().as_ffi(), b.data().as_ffi())
        })
        .collect();
    if got != edges {
        fail("edges", format!("edges() has {} edges, enumeration {}", got.len(), edges.len()));
    }
    if tri.number_of_edges() != edges.len() {
        fail("number_of_edges", format!("{} vs {}", tri.number_of_edges(), edges.len()));
    }
    // facets
    let all: Vec<(u64, usize)> = dt.facets().map(|f| (f.cell_key().data().as_ffi(), f.facet_index() as usize)).collect();
    let expect_all: BTreeSet<(u64, usize)> =
        s.cells.iter().flat_map(|c| (0..c.verts.len()).map(move |i| (c.key, i))).collect();
    if all.len() != expect_all.len() || all.iter().copied().collect::<BTreeSet<_>>() != expect_all {
        fail("facets", format!("facets() yields {} handles, enumeration {}", all.len(), expect_all.len()));
    }
    let gotb: BTreeSet<(u64, usize)> =
        dt.boundary_facets().map(|f| (f.cell_key().data().as_ffi(), f.facet_index() as usize)).collect();
    if gotb != boundary {
        fail("boundary_facets", format!("boundary_facets() {} vs enumeration {}", gotb.len(), boundary.len()));
    }
    match dt.tds().number_of_boundary_facets() {
        Ok(n) if n == boundary.len() => {}
        other => fail("number_of_boundary_facets", format!("{other:?} vs {}", boundary.len())),
    }
    // adjacency index
    let index = match dt.build_adjacency_index() {
        Ok(i) => Some(i),
        Err(e) => {
            fail("build_adjacency_index", format!("failed on a structurally valid complex: {e}"));
            None
        }
    };
    if let Some(ix) = &index {
        let got: BTreeSet<(u64, u64)> = dt
            .edges_with_index(ix)
            .map(|e| {
                let (a, b) = e.endpoints();
                edge_pair(a.data().as_ffi(), b.data().as_ffi())
            })
            .collect();
        if got != edges {
            fail("edges_with_index", format!("{} vs {}", got.len(), edges.len()));
        }
        if tri.number_of_edges_with_index(ix) != edges.len() || ix.number_of_edges() != edges.len() {
            fail("number_of_edges_with_index", format!("{} / {} vs {}", tri.number_of_edges_with_index(ix), ix.number_of_edges(), edges.len()));
        }
    }
    // per cell
    for c in &s.cells {
        let ck = ckey(c.key);
        let want = nbrs.get(&c.key).cloned().unwrap_or_default();
        let got: BTreeSet<u64> = dt.cell_neighbors(ck).map(|k| k.data().as_ffi()).collect();
        if got != want {
            fail("cell_neighbors", format!("cell {:#x}: {:x?} vs enumeration {:x?}", c.key, got, want));
        }
        if let Some(ix) = &index {
            let g2: BTreeSet<u64> = dt.cell_neighbors_with_index(ix, ck).map(|k| k.data().as_ffi()).collect();
            if g2 != want || tri.number_of_cell_neighbors_with_index(ix, ck) != want.len() {
                fail("cell_neighbors_with_index", format!("cell {:#x}", c.key));
            }
        }
        match dt.cell_vertices(ck) {
            Some(vs) if vs.iter().map(|v| v.data().as_ffi()).collect::<Vec<_>>() == c.verts => {}
            _ => fail("cell_vertices", format!("cell {:#x}", c.key)),
        }
    }
    // per vertex
    for v in &s.verts {
        let vk = vkey(v.key);
        let want = star.get(&v.key).cloned().unwrap_or_default();
        let got: BTreeSet<u64> = tri.adjacent_cells(vk).map(|k| k.data().as_ffi()).collect();
        // is the star of v facet-connected (cells linked through shared facets that contain v)?
        let star_shape = {
            let cells: Vec<&crate::snap::SCell> = s.cells.iter().filter(|c| want.contains(&c.key)).collect();
            let mut seen: BTreeSet<u64> = BTreeSet::new();
            let mut stack: Vec<&crate::snap::SCell> = cells.first().copied().into_iter().collect();
            while let Some(c) = stack.pop() {
                if !seen.insert(c.key) {
                    continue;
                }
                for o in &cells {
                    if !seen.contains(&o.key) && o.verts.iter().filter(|x| c.verts.contains(x)).count() == c.verts.len() - 1 {
                        stack.push(o);
                    }
                }
            }
            if seen.len() == cells.len() { "connected" } else { "pinched" }
        };
        if got != want {
            fail(&format!("adjacent_cells|star={star_shape}"), format!("vertex {:#x}: {} cells vs enumeration {}", v.key, got.len(), want.len()));
        }
        let wante = vedges.get(&v.key).cloned().unwrap_or_default();
        let gote: BTreeSet<(u64, u64)> = dt
            .incident_edges(vk)
            .map(|e| {
                let (a, b) = e.endpoints();
                edge_pair(a.data().as_ffi(), b.data().as_ffi())
            })
            .collect();
        if gote != wante || tri.number_of_incident_edges(vk) != wante.len() {
            fail(&format!("incident_edges|star={star_shape}"), format!("vertex {:#x}: {} vs enumeration {}", v.key, gote.len(), wante.len()));
        }
        if let Some(ix) = &index {
            let g2: BTreeSet<u64> = tri.adjacent_cells_with_index(ix, vk).map(|k| k.data().as_ffi()).collect();
            if g2 != want || tri.number_of_adjacent_cells_with_index(ix, vk) != want.len() {
                fail("adjacent_cells_with_index", format!("vertex {:#x}: {} vs {}", v.key, g2.len(), want.len()));
            }
            let e2: BTreeSet<(u64, u64)> = dt
                .incident_edges_with_index(ix, vk)
                .map(|e| {
                    let (a, b) = e.endpoints();
                    edge_pair(a.data().as_ffi(), b.data().as_ffi())
                })
                .collect();
            if e2 != wante || tri.number_of_incident_edges_with_index(ix, vk) != wante.len() {
                fail("incident_edges_with_index", format!("vertex {:#x}", v.key));
            }
        }
        match dt.vertex_coords(vk) {
            Some(c) if crate::snap::coords_bits_eq(c, &v.coords) => {}
            _ => fail("vertex_coords", format!("vertex {:#x}", v.key)),
        }
    }
    // missing / stale keys
    let live_cells: BTreeSet<u64> = s.cells.iter().map(|c| c.key).collect();
    let live_verts: BTreeSet<u64> = s.verts.iter().map(|v| v.key).collect();
    for raw in stale.iter().copied().chain([0x0000_0001_0000_00f3u64, 0x0000_0077_0000_0001u64]) {
        if !live_cells.contains(&raw) {
            let ck = ckey(raw);
            if dt.cell_neighbors(ck).count() != 0 || dt.cell_vertices(ck).is_some() {
                fail("missing-cell-key", format!("{raw:#x} answers as if live"));
            }
        }
        if !live_verts.contains(&raw) {
            let vk = vkey(raw);
            if tri.adjacent_cells(vk).count() != 0 || dt.incident_edges(vk).count() != 0 || dt.vertex_coords(vk).is_some() {
                fail("missing-vertex-key", format!("{raw:#x} answers as if live"));
            }
        }
    }
    // simplex counts and Euler characteristic
    let f = refval::f_vector(s);
    match count_simplices(dt.tds()) {
        Ok(fv) => {
            if fv.by_dim != f {
                fail("count_simplices", format!("{:?} vs enumeration {:?}", fv.by_dim, f));
            }
            if i64::try_from(euler_characteristic(&fv)).unwrap_or(i64::MIN) != refval::euler(&f) && fv.by_dim == f {
                fail("euler_characteristic", format!("{} vs {}", euler_characteristic(&fv), refval::euler(&f)));
            }
        }
        Err(e) => fail("count_simplices", format!("error {e}")),
    }
    bad
}

impl<K: SimKernel<D>, const D: usize> Monitor<K, D> for C15 {
    fn after(&mut self, ctx: &mut StepCtx<'_, K, D>, pre: Option<&Snap>, out: &Outcome, post: Option<&Snap>) {
        let Some(post) = post else { return };
        if matches!(out.kind, OutKind::Unresolved | OutKind::Panic) {
            return;
        }
        let obj = match &ctx.oprec.op {
            crate::ops::Op::CloneTo { target, .. } | crate::ops::Op::SaveLoad { target, .. } => Some(*target),
            op => op.obj(),
        };
        let Some(obj) = obj else { return };
        let Some(dt) = ctx.world.objs.get(obj).and_then(|o| o.as_ref()) else { return };
        // Closed (periodic) complexes: a D = 2 triangulation built by `toroidal_periodic` is a valid
        // triangulation that is not a ball (chi = 0). The ball-specific part of this monitor does
        // not apply; the simplex counts and the agreement of the indexed variants do. Judged only
        // where the library's own Levels 1-3 accept the state.
        if post.policies.get(4).is_some_and(|m| m.contains("Toroidal")) {
            if post.cells.is_empty() {
                ctx.stats.bump("c15.periodic_state_without_cells");
                return;
            }
            if dt.tds().is_valid().is_err() {
                ctx.stats.bump("c15.periodic_state_rejected_by_levels_1_2");
                return;
            }
            // Level 3: either the library's own verdict, or - because `Triangulation::is_valid`
            // expects chi = 2 ("ClosedSphere") of every complex without boundary and therefore
            // rejects the tori its own builder returns - the reference verdict "connected closed
            // pseudomanifold": every facet in exactly two cells, one component.
            let lib_l3 = dt.as_triangulation().is_valid().is_ok();
            let closed = {
                let fmap = refval::facet_map(post);
                let two_sided = fmap.values().all(|i| i.incident.len() == 2);
                let mut l3 = refval::Report::default();
                refval::level3(post, Strength::Pseudomanifold, false, &mut l3);
                two_sided && !l3.violations.iter().any(|v| matches!(v.kind, "disconnected" | "facet-degree" | "isolated-vertex"))
            };
            if !lib_l3 && !closed {
                ctx.stats.bump("c15.periodic_state_rejected_by_level_3");
                return;
            }
            ctx.stats.bump(if lib_l3 { "c15.periodic_state_judged_library_level3" } else { "c15.periodic_state_judged_closed_quotient" });
            ctx.stats.evaluations += 1;
            let kind = ctx.oprec.op.kind();
            for (what, detail) in compare_counts(dt, post) {
                push_violation(
                    ctx.violations,
                    violation("C15", "query-disagrees-with-stored-complex", ctx.step, format!("query={what}|periodic|after={kind}|result={:?}", out.kind), format!("after {kind} ({}) on a periodic complex: {what}: {detail}", out.class())),
                );
            }
            return;
        }
        // the comparison is defined for structurally consistent complexes (Levels 1-2)
        let mut rep = refval::Report::default();
        refval::level1(post, &mut rep);
        if rep.ok() {
            refval::level2(post, &mut rep);
        }
        if !rep.ok() {
            ctx.stats.bump("c15.state_not_structurally_valid");
            return;
        }
        // The property quantifies over *valid* triangulations: the state must also satisfy the
        // manifold level at the strength of its own guarantee (a vertex whose star is not
        // facet-connected is legal for a pseudomanifold, and then judged, but it is an invalid
        // state under the PL-manifold guarantees, where the star walk behind `adjacent_cells`
        // and `incident_edges` is entitled to assume a connected star).
        {
            let mut l3 = refval::Report::default();
            refval::level3(post, crate::monitors::valid::strength_of(post), true, &mut l3);
            if !l3.violations.iter().all(|v| matches!(v.kind, "flat-cell" | "inverted-cell")) {
                ctx.stats.bump("c15.state_not_valid_at_its_guarantee");
                return;
            }
        }
        ctx.stats.evaluations += 1;
        let kind = ctx.oprec.op.kind();
        // stale keys: everything that was live before this step
        let mut stale: Vec<u64> = Vec::new();
        if let Some(p) = pre {
            stale.extend(p.cells.iter().map(|c| c.key));
            stale.extend(p.verts.iter().map(|v| v.key));
        }
        for (what, detail) in compare(dt, post, &stale) {
            push_violation(
                ctx.violations,
                violation("C15", "query-disagrees-with-stored-complex", ctx.step, format!("query={what}|after={kind}|result={:?}", out.kind), format!("after {kind} ({}): {what}: {detail}", out.class())),
            );
        }
        // classification: a valid complex with at least one cell is a ball with chi = 1 and a sphere boundary
        if !post.cells.is_empty() {
            // "Euclidean triangulation" = a genuine geometric triangulation: PL-manifold ball
            // (vertex links checked), every cell exactly positively oriented, convex boundary.
            // Pinched pseudomanifolds (legal under TopologyGuarantee::Pseudomanifold) are excluded.
            let rv = refval::validate(post, Strength::PLManifoldStrict, true);
            if crate::geom::embedded(post, &rv) == crate::geom::Tri::Yes {
                ctx.stats.evaluations += 1;
                let cls = classify_triangulation(dt.tds());
                let ok_cls = matches!(cls, Ok(TopologyClassification::Ball(d)) if d == D)
                    || matches!(cls, Ok(TopologyClassification::SingleSimplex(d)) if d == D && post.cells.len() == 1);
                if !ok_cls {
                    push_violation(ctx.violations, violation("C15", "classification", ctx.step, format!("classify|after={kind}"), format!("classified as {cls:?} with {} cells", post.cells.len())));
                }
                match validate_triangulation_euler(dt.tds()) {
                    Ok(r) if r.chi == 1 && r.is_valid() => {}
                    other => push_violation(ctx.violations, violation("C15", "euler", ctx.step, format!("euler|after={kind}"), format!("{other:?}"))),
                }
                if let Ok(bf) = count_boundary_simplices(dt.tds()) {
                    let chi_b = euler_characteristic(&bf);
                    let expect: isize = if (D - 1) % 2 == 0 { 2 } else { 0 };
                    if chi_b != expect {
                        push_violation(ctx.violations, violation("C15", "boundary-euler", ctx.step, format!("boundary-euler|after={kind}"), format!("chi(boundary) = {chi_b}, expected {expect}; f = {:?}", bf.by_dim)));
                    }
                }
            }
        }
    }
}
