//! C03 — failed or skipped mutations leave the triangulation exactly as it was.
//!
//! Before every mutating step the monitor (1) runs the op on a clone in record mode to learn
//! how often each failpoint site is hit, (2) re-runs it from a fresh clone once per
//! (site, hit index) with that single failure forced, (3) runs sampled fault pairs whose
//! second fault lands in the recovery path, and checks, whenever the call reports Err or
//! Skipped, that the full observable state equals the pre-state. The real (unfaulted) call is
//! checked the same way in `after`. A faulted-and-failed clone is kept as a *twin* and must
//! behave like the untouched original for the rest of the history.

use crate::exec::{run_mutator, OutKind, Outcome, SimKernel};
use crate::history::{Monitor, StepCtx};
use crate::rng::Rng;
use crate::run::{push_violation, violation};
use crate::snap::{Dt, Snap};

pub struct C03<K: SimKernel<D>, const D: usize> {
    pub max_single: usize,
    pub max_pairs: usize,
    pub max_kernel: usize,
    /// faulted-and-failed clones kept alive; each must behave like the untouched original
    twins: Vec<(Dt<K, D>, usize, String)>,
    max_twins: usize,
    /// clone of the target object taken before the current step (it never makes the call)
    pre_clone: Option<Dt<K, D>>,
}

impl<K: SimKernel<D>, const D: usize> C03<K, D> {
    pub fn new(thorough: bool) -> Self {
        Self { max_single: if thorough { 400 } else { 96 }, max_pairs: if thorough { 24 } else { 6 }, max_kernel: if thorough { 160 } else { 40 }, twins: Vec::new(), max_twins: if thorough { 4 } else { 3 }, pre_clone: None }
    }
}

/// (operation kind, failpoint site) pairs where the site is the operation's own undo action.
const UNDO_STEPS: &[(&str, &str)] = &[("flip_k1_insert", "prim.tds_remove_vertex")];

fn safe_snap<K: SimKernel<D>, const D: usize>(dt: &Dt<K, D>) -> Option<Snap> {
    std::panic::catch_unwind(std::panic::AssertUnwindSafe(|| Snap::of(dt))).ok()
}

fn check_unchanged<K: SimKernel<D>, const D: usize>(
    ctx: &mut StepCtx<'_, K, D>,
    pre: &Snap,
    after: &Dt<K, D>,
    out: &Outcome,
    faults: &[(String, u64)],
    clause: &str,
) -> bool {
    ctx.stats.evaluations += 1;
    // only the faults that actually fired identify the failing history
    let fired: Vec<(String, u64)> = faults.iter().filter(|f| out.fired.contains(f)).cloned().collect();
    let faults = &fired[..];
    let Some(post) = safe_snap(after) else {
        push_violation(
            ctx.violations,
            violation("C03", clause, ctx.step, format!("op={}|faults={:?}|unreadable", ctx.oprec.op.kind(), site_names(faults)), "state unreadable after failed call".into()),
        );
        return false;
    };
    if let Some(d) = pre.diff(&post) {
        let sig = format!("op={}|sites={}|result={}", ctx.oprec.op.kind(), site_names(faults), out.class());
        push_violation(
            ctx.violations,
            violation(
                "C03",
                clause,
                ctx.step,
                sig,
                format!("call returned {} ({}) with faults {:?} but state changed: {}", out.class(), out.detail, faults, d),
            ),
        );
        return false;
    }
    if post.generation < pre.generation {
        // reported under C03's sibling clause (generation must never go backwards)
        push_violation(
            ctx.violations,
            violation("C03", "generation-decreased", ctx.step, format!("op={}|sites={}", ctx.oprec.op.kind(), site_names(faults)), format!("generation {} -> {}", pre.generation, post.generation)),
        );
    }
    true
}

fn site_names(faults: &[(String, u64)]) -> String {
    if faults.is_empty() {
        return "-".into();
    }
    faults.iter().map(|(s, _)| s.as_str()).collect::<Vec<_>>().join("+")
}

impl<K: SimKernel<D>, const D: usize> Monitor<K, D> for C03<K, D> {
    fn before(&mut self, ctx: &mut StepCtx<'_, K, D>, pre: Option<&Snap>) {
        let op = ctx.oprec.op.clone();
        if !op.is_c03_mutator() {
            return;
        }
        let Some(pre) = pre else { return };
        let Some(obj) = op.obj() else { return };
        let Some(base) = ctx.world.objs.get(obj).and_then(|o| o.as_ref()).cloned() else { return };
        self.pre_clone = if obj == 0 { Some(base.clone()) } else { None };

        // (1) record mode
        let mut probe = base.clone();
        let plan0 = ctx.plan(&ctx.oprec.faults.clone());
        let out0 = run_mutator(&mut probe, &plan0, &op);
        ctx.stats.executions += 1;
        if out0.kind == OutKind::Unresolved {
            return;
        }
        // (2) every single (site, hit)
        let mut singles: Vec<(String, u64)> = Vec::new();
        // predicate-call failures (kernel seam) are enumerated under their own cap so that they
        // never crowd out the named internal error returns
        let mut ksingles: Vec<(String, u64)> = Vec::new();
        for (site, n) in &out0.counts {
            // a fault is never injected into an undo step (section 6, C03: "snapshot restore itself is
            // not a failpoint"): flip_k1_insert undoes its vertex insertion with Tds::remove_vertex
            if UNDO_STEPS.iter().any(|(o, s)| *o == op.kind() && s == site) {
                ctx.stats.add("c03.undo_step_hits_not_armed", *n);
                continue;
            }
            for i in 0..*n {
                if crate::kfault::is_kernel_site(site) {
                    ksingles.push((site.clone(), i));
                } else {
                    singles.push((site.clone(), i));
                }
            }
        }
        ctx.stats.add("c03.crash_points_seen", singles.len() as u64);
        ctx.stats.add("c03.predicate_calls_seen", ksingles.len() as u64);
        let mut rng = Rng::sub(ctx.header.run_seed, "faultsel", ctx.oprec.idx);
        if singles.len() > self.max_single {
            rng.shuffle(&mut singles);
            singles.truncate(self.max_single);
            ctx.stats.bump("c03.steps_sampled_not_exhaustive");
        } else {
            ctx.stats.bump("c03.steps_exhaustive");
        }
        {
            let mut krng = Rng::sub(ctx.header.run_seed, "kfaultsel", ctx.oprec.idx);
            if ksingles.len() > self.max_kernel {
                // keep the first and last few calls (entry checks, final verification) and sample the rest
                let keep_edge = self.max_kernel / 4;
                let n = ksingles.len();
                let mut mid: Vec<(String, u64)> = ksingles[keep_edge..n - keep_edge].to_vec();
                krng.shuffle(&mut mid);
                mid.truncate(self.max_kernel - 2 * keep_edge);
                let mut kept: Vec<(String, u64)> = ksingles[..keep_edge].to_vec();
                kept.extend(mid);
                kept.extend_from_slice(&ksingles[n - keep_edge..]);
                ksingles = kept;
                ctx.stats.bump("c03.steps_predicate_calls_sampled");
            } else if !ksingles.is_empty() {
                ctx.stats.bump("c03.steps_predicate_calls_exhaustive");
            }
        }
        let kernel_total: u64 = out0.counts.iter().filter(|(s, _)| crate::kfault::is_kernel_site(s)).map(|(_, n)| *n).sum();
        singles.extend(ksingles);
        let mut traces: Vec<(Vec<(String, u64)>, Vec<(String, u64)>)> = Vec::new();
        for (fi, f) in singles.iter().enumerate() {
            if fi % 16 == 15 {
                crate::history::heartbeat(fi);
            }
            let mut c = base.clone();
            let mut faults = ctx.oprec.faults.clone();
            faults.push(f.clone());
            let out = run_mutator(&mut c, &ctx.plan(&faults), &op);
            ctx.stats.executions += 1;
            ctx.stats.faults_armed += 1;
            if out.fired.iter().any(|x| x == f) {
                *ctx.stats.faults_fired.entry(f.0.clone()).or_insert(0) += 1;
            } else {
                ctx.stats.bump("c03.fault_not_reached");
            }
            ctx.stats.tuples.insert(format!("{}|{}|{}", op.kind(), out.class(), f.0));
            match out.kind {
                OutKind::Err | OutKind::Skipped => {
                    let same = check_unchanged(ctx, pre, &c, &out, &faults, "state-changed-on-failure");
                    // at most one new twin per step, so that the twins stem from different calls
                    if same && self.twins.len() < self.max_twins && self.twins.last().is_none_or(|t| t.1 != ctx.step) && rng.chance(1, 3) {
                        self.twins.push((c, ctx.step, format!("{}@{}@{}", f.0, f.1, op.kind())));
                    }
                }
                OutKind::Panic => {
                    ctx.stats.panics_under_fault += 1;
                    ctx.stats.bump(&format!("c03.panic_under_fault.{}", f.0));
                    let shape: String = out.detail.lines().next().unwrap_or("").chars().take(90).map(|c| if c.is_ascii_digit() { '#' } else { c }).collect();
                    ctx.stats.bump(&format!("c03.panic_under_fault_message.{}.{}: {}", op.kind(), f.0, shape));
                }
                OutKind::Ok => {
                    ctx.stats.bump("c03.fault_absorbed");
                }
                OutKind::Unresolved => {}
            }
            if traces.len() < 32 {
                traces.push((faults, out.trace.clone()));
            }
        }
        // (3) pairs: second fault strictly after the first one fired, inside the recovery path
        let mut pairs_done = 0;
        while pairs_done < self.max_pairs && !traces.is_empty() {
            pairs_done += 1;
            let (faults1, trace) = rng.pick(&traces).clone();
            let first = faults1.last().expect("one fault").clone();
            // named second fault: strictly after the first one fired (a predicate failure is not
            // in the library's site trace, so any named site of that execution may follow it)
            let start = match trace.iter().position(|x| *x == first) {
                Some(pos) => pos + 1,
                None if crate::kfault::is_kernel_site(&first.0) => 0,
                None => continue,
            };
            let second = if kernel_total > 0 && (start >= trace.len() || rng.chance(1, 3)) {
                // a predicate failure somewhere in the (possibly longer) faulted execution
                let site = if rng.chance(1, 2) { crate::kfault::ORIENTATION } else { crate::kfault::IN_SPHERE };
                (site.to_string(), rng.below(kernel_total + 8))
            } else if start < trace.len() {
                trace[start + rng.usize_below(trace.len() - start)].clone()
            } else {
                continue;
            };
            if second == first || UNDO_STEPS.iter().any(|(o, st)| *o == op.kind() && *st == second.0) {
                continue;
            }
            let mut faults = faults1.clone();
            faults.push(second.clone());
            let mut c = base.clone();
            let out = run_mutator(&mut c, &ctx.plan(&faults), &op);
            ctx.stats.executions += 1;
            ctx.stats.faults_armed += 2;
            ctx.stats.bump("c03.pairs_run");
            if out.failed() {
                check_unchanged(ctx, pre, &c, &out, &faults, "state-changed-on-failure");
            } else if out.kind == OutKind::Panic {
                ctx.stats.panics_under_fault += 1;
            }
        }
    }

    fn after(&mut self, ctx: &mut StepCtx<'_, K, D>, pre: Option<&Snap>, out: &Outcome, post: Option<&Snap>) {
        let op = ctx.oprec.op.clone();
        let Some(obj) = op.obj() else { return };
        if op.is_c03_mutator()
            && out.failed()
            && let (Some(pre), Some(dt)) = (pre, ctx.world.objs.get(obj).and_then(|o| o.as_ref()).cloned())
        {
            let faults = ctx.oprec.faults.clone();
            let same = check_unchanged(ctx, pre, &dt, out, &faults, "state-changed-on-failure");
            // "as if the failed call had never been made": the clone taken before the step never
            // makes the call and lives on next to the object that did (from the next step on)
            if same
                && obj == 0
                && self.twins.len() < self.max_twins + 1
                && let Some(never) = self.pre_clone.take()
            {
                let fired = out.fired.first().map_or_else(|| format!("natural:{}", out.tag), |f| f.0.clone());
                self.twins.push((never, ctx.step + 1, format!("{}@-@{}", fired, op.kind())));
                ctx.stats.bump("c03.never_called_twins");
            }
        }
        self.pre_clone = None;
        // twins: apply the same op, compare outcome class and canonical state
        if obj != 0 {
            return;
        }
        let mut drop_idx: Vec<usize> = Vec::new();
        for ti in 0..self.twins.len() {
            if self.twins[ti].1 > ctx.step {
                continue;
            }
            let plan = ctx.plan(&ctx.oprec.faults.clone());
            let (twin, since, label) = &mut self.twins[ti];
            let tout = run_mutator(twin, &plan, &op);
            ctx.stats.executions += 1;
            ctx.stats.evaluations += 1;
            if tout.kind == OutKind::Unresolved && out.kind == OutKind::Unresolved {
                continue;
            }
            let tsnap = safe_snap(twin);
            let same_class = tout.class() == out.class();
            let same_state = match (&tsnap, post) {
                (Some(a), Some(b)) => a.canonical() == b.canonical() && a.policies == b.policies,
                _ => false,
            };
            if !(same_class && same_state) && out.kind != OutKind::Panic {
                let sig = format!("twin|failedop={}|failed={}|op={}", label.split('@').nth(2).unwrap_or(""), label.split('@').next().unwrap_or(""), op.kind());
                push_violation(
                    ctx.violations,
                    violation(
                        "C03",
                        "later-operations-differ",
                        ctx.step,
                        sig,
                        format!(
                            "object whose call failed under {} at step {} now answers {} [{}] (original: {} [{}]), canonical states equal: {}",
                            label, since, tout.class(), tout.detail, out.class(), out.detail, same_state
                        ),
                    ),
                );
                drop_idx.push(ti);
            }
        }
        for ti in drop_idx.into_iter().rev() {
            self.twins.remove(ti);
        }
    }
}
