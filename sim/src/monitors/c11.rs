//! C11 — the convex hull view is the true hull and never serves stale data.
//!
//! Hull artefacts are created at seeded points of a history and kept; after every later
//! operation on the same object (successful, skipped, failed-and-rolled-back, cache-dropping
//! no-ops, removals down to bootstrap and back, heuristic rebuilds) every hull query is issued:
//! once the triangulation differs from the one the hull was extracted from, every query must
//! report staleness; while it is unchanged the hull may be conservative (stale) but must never
//! give a wrong answer. The generation counter must never decrease.

use crate::exec::{OutKind, Outcome, SimKernel};
use crate::geom::{self, Tri};
use crate::history::{Monitor, StepCtx};
use crate::refval;
use crate::rng::Rng;
use crate::run::{push_violation, violation};
use crate::snap::{Snap, U, V};
use delaunay::geometry::algorithms::convex_hull::ConvexHull;
use delaunay::geometry::point::Point;
use delaunay::geometry::traits::coordinate::Coordinate;
use slotmap::Key;
use std::collections::BTreeSet;

struct Art<K: SimKernel<D>, const D: usize> {
    hull: ConvexHull<K, U, V, D>,
    created: Snap,
    slot: usize,
    step: usize,
    embedded: bool,
}

pub struct C11<K: SimKernel<D>, const D: usize> {
    arts: Vec<Art<K, D>>,
    last_generation: Vec<Option<u64>>,
}

impl<K: SimKernel<D>, const D: usize> C11<K, D> {
    pub fn new() -> Self {
        Self { arts: Vec::new(), last_generation: vec![None; crate::history::SLOTS] }
    }
}

fn query_points<const D: usize>(rng: &mut Rng, s: &Snap) -> Vec<Vec<f64>> {
    let mut qs = Vec::new();
    if s.verts.is_empty() {
        return qs;
    }
    for _ in 0..2 {
        let v = &s.verts[rng.usize_below(s.verts.len())];
        let w = &s.verts[rng.usize_below(s.verts.len())];
        qs.push(v.coords.iter().zip(&w.coords).map(|(a, b)| (a + b) / 2.0).collect());
        let mut far = v.coords.clone();
        let i = rng.usize_below(D);
        far[i] += if rng.chance(1, 2) { 64.0 } else { -64.0 } * (1.0 + far[i].abs());
        qs.push(far);
        let mut near = v.coords.clone();
        let j = rng.usize_below(D);
        near[j] += if rng.chance(1, 2) { 0.5 } else { -0.5 };
        qs.push(near);
    }
    qs
}

impl<K: SimKernel<D>, const D: usize> Monitor<K, D> for C11<K, D> {
    #[allow(clippy::too_many_lines)]
    fn after(&mut self, ctx: &mut StepCtx<'_, K, D>, _pre: Option<&Snap>, out: &Outcome, post: Option<&Snap>) {
        if matches!(out.kind, OutKind::Unresolved | OutKind::Panic) {
            return;
        }
        let slot = match &ctx.oprec.op {
            crate::ops::Op::CloneTo { target, .. } | crate::ops::Op::SaveLoad { target, .. } => Some(*target),
            op => op.obj(),
        };
        let Some(slot) = slot else { return };
        let Some(post) = post else { return };
        let kind = ctx.oprec.op.kind();
        let replaced = matches!(ctx.oprec.op, crate::ops::Op::New { .. } | crate::ops::Op::Empty { .. } | crate::ops::Op::CloneTo { .. } | crate::ops::Op::SaveLoad { .. });
        // generation monotonicity along one object's history
        if replaced {
            self.last_generation[slot] = Some(post.generation);
            // artefacts of a replaced object are dropped (the slot now holds a different object)
            self.arts.retain(|a| a.slot != slot);
        } else {
            if let Some(prev) = self.last_generation[slot]
                && post.generation < prev
            {
                push_violation(
                    ctx.violations,
                    violation("C11", "generation-decreased", ctx.step, format!("after={kind}|result={:?}", out.kind), format!("tds.generation() went {prev} -> {} across {kind} ({})", post.generation, out.class())),
                );
            }
            self.last_generation[slot] = Some(post.generation);
        }
        let Some(dt) = ctx.world.objs.get(slot).and_then(|o| o.as_ref()) else { return };
        let tri = dt.as_triangulation();
        let mut rng = Rng::sub(ctx.header.run_seed, "hull", ctx.oprec.idx);

        // check every kept hull of this slot
        let mut findings: Vec<(String, String, String)> = Vec::new();
        for art in self.arts.iter().filter(|a| a.slot == slot) {
            ctx.stats.evaluations += 1;
            let changed = art.created.diff_complex(post).is_some();
            let valid = art.hull.is_valid_for_triangulation(tri);
            let label = format!("after={kind}|result={:?}", out.kind);
            if changed && valid {
                findings.push((
                    "stale-hull-reports-valid".into(),
                    label.clone(),
                    format!(
                        "hull created at step {} (generation {}) still reports valid after {kind} ({}) although the triangulation changed: {} (generation now {})",
                        art.step, art.created.generation, out.class(), art.created.diff_complex(post).unwrap_or_default(), post.generation
                    ),
                ));
            }
            for q in query_points::<D>(&mut rng, post) {
                let mut arr = [0.0f64; D];
                arr.copy_from_slice(&q);
                let point = Point::new(arr);
                let r_out = art.hull.is_point_outside(&point, tri);
                let r_vis = art.hull.find_visible_facets(&point, tri);
                let r_near = art.hull.find_nearest_visible_facet(&point, tri);
                let r_val = art.hull.validate(tri);
                let r_facet = art.hull.get_facet(0).map(|f| art.hull.is_facet_visible_from_point(f, &point, tri));
                ctx.stats.executions += 5;
                if changed {
                    let answered = [r_out.is_ok(), r_vis.is_ok(), r_near.is_ok(), r_val.is_ok(), r_facet.as_ref().is_some_and(Result::is_ok)];
                    if answered.iter().any(|x| *x) {
                        findings.push((
                            "stale-hull-answers".into(),
                            label.clone(),
                            format!(
                                "triangulation changed since hull creation (step {}), yet queries answered instead of reporting staleness: is_point_outside={:?} find_visible_facets ok={} nearest ok={} validate ok={} facet-visible ok={:?}",
                                art.step, r_out, r_vis.is_ok(), r_near.is_ok(), r_val.is_ok(), r_facet.as_ref().map(Result::is_ok)
                            ),
                        ));
                    }
                } else if art.embedded {
                    // unchanged: either stale (conservative) or exactly right
                    let pos = geom::hull_position(post, &q);
                    if !pos.decidable {
                        ctx.stats.abstained += 1;
                        continue;
                    }
                    if pos.on_some_hyperplane {
                        // q lies exactly in the hyperplane of some hull facet: for those facets the
                        // library applies its documented distance heuristic (not judged); everything
                        // else about the query is still exact
                        ctx.stats.bump("c11.queries_in_a_facet_hyperplane");
                        if pos.visible.is_empty() {
                            // on the hull boundary itself: neither strictly inside nor outside
                            ctx.stats.abstained += 1;
                            continue;
                        }
                        if let Ok(o) = r_out
                            && !o
                        {
                            findings.push(("wrong-outside-answer".into(), label.clone(), format!("is_point_outside({q:?}) = false for a point strictly beyond {} hull facet(s) (and exactly in the hyperplane of {} other(s))", pos.visible.len(), pos.coplanar.len())));
                        }
                        if let Ok(vis) = &r_vis {
                            let got: BTreeSet<(u64, usize)> = vis.iter().filter_map(|i| art.hull.get_facet(*i)).map(|f| (f.cell_key().data().as_ffi(), f.facet_index() as usize)).collect();
                            let must: BTreeSet<(u64, usize)> = pos.visible.iter().copied().collect();
                            let may: BTreeSet<(u64, usize)> = pos.coplanar.iter().copied().collect();
                            if !must.is_subset(&got) || got.iter().any(|g| !must.contains(g) && !may.contains(g)) {
                                findings.push(("wrong-visible-facets".into(), label.clone(), format!("find_visible_facets({q:?}) = {got:x?}; exactly visible: {must:x?}; in-plane (heuristic, not judged): {may:x?}")));
                            }
                        }
                        // an in-plane facet is never strictly visible; the library's documented
                        // distance heuristic agrees with that as long as q is closer to the facet's
                        // centroid than the facet's diameter - judged there (with a 20 % margin),
                        // not beyond
                        let coords = post.key_to_coords();
                        let near_in_plane: Vec<(u64, usize)> = pos
                            .coplanar
                            .iter()
                            .copied()
                            .filter(|(cell, opp)| {
                                let Some(c) = post.cells.iter().find(|c| c.key == *cell) else { return false };
                                let pts: Vec<&[f64]> = c.verts.iter().enumerate().filter(|(j, _)| j != opp).filter_map(|(_, k)| coords.get(k).copied()).collect();
                                if pts.len() != D {
                                    return false;
                                }
                                let cen: Vec<f64> = (0..D).map(|a| pts.iter().map(|p| p[a]).sum::<f64>() / D as f64).collect();
                                let d2: f64 = cen.iter().zip(&q).map(|(c, x)| (c - x).powi(2)).sum();
                                let mut diam2 = 0.0f64;
                                for i in 0..pts.len() {
                                    for j in (i + 1)..pts.len() {
                                        diam2 = diam2.max(pts[i].iter().zip(pts[j]).map(|(a, b)| (a - b).powi(2)).sum());
                                    }
                                }
                                d2.is_finite() && diam2.is_finite() && d2 < 0.64 * diam2
                            })
                            .collect();
                        if let Ok(vis) = &r_vis {
                            let got: BTreeSet<(u64, usize)> = vis.iter().filter_map(|i| art.hull.get_facet(*i)).map(|f| (f.cell_key().data().as_ffi(), f.facet_index() as usize)).collect();
                            if let Some(bad) = near_in_plane.iter().find(|k| got.contains(k)) {
                                findings.push(("in-plane-facet-reported-visible".into(), label.clone(), format!("find_visible_facets({q:?}) contains facet {bad:x?}, whose hyperplane contains the point and whose centroid is closer than its diameter")));
                            }
                        }
                        for fi in 0..art.hull.number_of_facets().min(32) {
                            let Some(f) = art.hull.get_facet(fi) else { continue };
                            let key = (f.cell_key().data().as_ffi(), f.facet_index() as usize);
                            if near_in_plane.contains(&key) {
                                ctx.stats.executions += 1;
                                if let Ok(true) = art.hull.is_facet_visible_from_point(f, &point, tri) {
                                    findings.push(("in-plane-facet-reported-visible".into(), label.clone(), format!("is_facet_visible_from_point(facet {fi}, {q:?}) = true for a point exactly in the facet's hyperplane and closer to its centroid than its diameter")));
                                    break;
                                }
                            }
                            if pos.coplanar.contains(&key) {
                                continue;
                            }
                            ctx.stats.executions += 1;
                            if let Ok(v) = art.hull.is_facet_visible_from_point(f, &point, tri)
                                && v != pos.visible.contains(&key)
                            {
                                findings.push(("wrong-facet-visibility".into(), label.clone(), format!("is_facet_visible_from_point(facet {fi}, {q:?}) = {v}, exact: {} (q lies in the hyperplane of another facet)", pos.visible.contains(&key))));
                                break;
                            }
                        }
                        continue;
                    }
                    if let Ok(o) = r_out
                        && o != pos.strictly_outside()
                    {
                        findings.push(("wrong-outside-answer".into(), label.clone(), format!("is_point_outside({q:?}) = {o}, exact: {}", pos.strictly_outside())));
                    }
                    if let Ok(vis) = &r_vis {
                        let got: BTreeSet<(u64, usize)> = vis
                            .iter()
                            .filter_map(|i| art.hull.get_facet(*i))
                            .map(|f| (f.cell_key().data().as_ffi(), f.facet_index() as usize))
                            .collect();
                        let want: BTreeSet<(u64, usize)> = pos.visible.iter().copied().collect();
                        if got != want {
                            findings.push(("wrong-visible-facets".into(), label.clone(), format!("find_visible_facets({q:?}) = {got:x?}, exact: {want:x?}")));
                        }
                    }
                    if let Ok(n) = &r_near {
                        if n.is_some() != pos.strictly_outside() {
                            findings.push(("wrong-nearest-facet".into(), label.clone(), format!("find_nearest_visible_facet({q:?}) = {n:?}, exact outside: {}", pos.strictly_outside())));
                        } else if let Some(i) = n {
                            // the returned facet must be visible and have the closest centroid among the visible ones
                            let coords = post.key_to_coords();
                            let centroid_d2 = |cell: u64, opp: usize| -> Option<f64> {
                                let c = post.cells.iter().find(|c| c.key == cell)?;
                                let mut cen = vec![0.0f64; D];
                                let mut n = 0.0;
                                for (j, k) in c.verts.iter().enumerate() {
                                    if j == opp {
                                        continue;
                                    }
                                    let p = coords.get(k)?;
                                    for a in 0..D {
                                        cen[a] += p[a];
                                    }
                                    n += 1.0;
                                }
                                Some(cen.iter().zip(&q).map(|(c, x)| (c / n - x).powi(2)).sum())
                            };
                            let got = art.hull.get_facet(*i).map(|f| (f.cell_key().data().as_ffi(), f.facet_index() as usize));
                            match got {
                                Some(g) if pos.visible.contains(&g) => {
                                    let best = pos.visible.iter().filter_map(|(c, o)| centroid_d2(*c, *o)).fold(f64::INFINITY, f64::min);
                                    if let Some(d) = centroid_d2(g.0, g.1)
                                        && best.is_finite()
                                        && d > best * (1.0 + 1e-9) + 1e-300
                                    {
                                        findings.push(("nearest-facet-not-nearest".into(), label.clone(), format!("find_nearest_visible_facet({q:?}) returned facet {i} at squared centroid distance {d}, but a visible facet at {best} exists")));
                                    }
                                }
                                _ => findings.push(("nearest-facet-not-visible".into(), label.clone(), format!("find_nearest_visible_facet({q:?}) returned facet {i}, which is not exactly visible from the point"))),
                            }
                        }
                    }
                    if let (Some(Ok(v)), Some(f)) = (&r_facet, art.hull.get_facet(0)) {
                        let key = (f.cell_key().data().as_ffi(), f.facet_index() as usize);
                        if *v != pos.visible.contains(&key) {
                            findings.push(("wrong-facet-visibility".into(), label.clone(), format!("is_facet_visible_from_point(facet 0, {q:?}) = {v}, exact: {}", pos.visible.contains(&key))));
                        }
                    }
                    // every facet of the hull, one by one (the per-facet query has its own code path)
                    for fi in 1..art.hull.number_of_facets().min(32) {
                        let Some(f) = art.hull.get_facet(fi) else { continue };
                        ctx.stats.executions += 1;
                        if let Ok(v) = art.hull.is_facet_visible_from_point(f, &point, tri) {
                            let key = (f.cell_key().data().as_ffi(), f.facet_index() as usize);
                            if v != pos.visible.contains(&key) {
                                findings.push(("wrong-facet-visibility".into(), label.clone(), format!("is_facet_visible_from_point(facet {fi}, {q:?}) = {v}, exact: {}", pos.visible.contains(&key))));
                                break;
                            }
                        }
                    }
                }
            }
        }
        for (clause, sig, detail) in findings {
            push_violation(ctx.violations, violation("C11", &clause, ctx.step, sig, detail));
        }

        // create a new hull artefact now and then
        if self.arts.len() < 6 && !post.cells.is_empty() && rng.chance(1, 3) {
            match ConvexHull::from_triangulation(tri) {
                Ok(hull) => {
                    let rv = refval::validate(post, crate::monitors::valid::strength_of(post), false);
                    let embedded = geom::embedded(post, &rv) == Tri::Yes;
                    if embedded {
                        ctx.stats.evaluations += 1;
                        // facet set == reference boundary facets
                        let got: BTreeSet<(u64, usize)> = hull.facets().map(|f| (f.cell_key().data().as_ffi(), f.facet_index() as usize)).collect();
                        let want: BTreeSet<(u64, usize)> = refval::boundary_facets(post).into_iter().map(|(_, c, i)| (c, i)).collect();
                        if got != want || hull.number_of_facets() != want.len() {
                            push_violation(ctx.violations, violation("C11", "hull-facets-wrong", ctx.step, format!("after={kind}"), format!("hull has {} facets, reference boundary {}", got.len(), want.len())));
                        }
                        if let Err(e) = hull.validate(tri) {
                            push_violation(ctx.violations, violation("C11", "fresh-hull-invalid", ctx.step, format!("after={kind}"), format!("validate() on a freshly extracted hull: {e}")));
                        }
                    }
                    self.arts.push(Art { hull, created: post.clone(), slot, step: ctx.step, embedded });
                }
                Err(e) => {
                    let rv = refval::validate(post, crate::monitors::valid::strength_of(post), false);
                    if geom::embedded(post, &rv) == Tri::Yes {
                        push_violation(ctx.violations, violation("C11", "hull-extraction-failed", ctx.step, format!("after={kind}"), format!("from_triangulation failed on a valid triangulation: {e}")));
                    }
                }
            }
        }
    }
}
