//! F-kernel: the `Kernel<D>` seam. Every run drives the library through `ErrKernel<K>`, a
//! pass-through wrapper around the shipped kernel that counts predicate calls per thread and,
//! when the plan arms `(kernel.orientation | kernel.in_sphere, n)`, makes the n-th call of that
//! predicate (counted from the start of the library call under the plan) return
//! `Err(CoordinateConversionError)` — an outcome the trait signature allows and the shipped
//! kernels produce on overflowing coordinates. It never changes a sign.

use delaunay::geometry::kernel::{FastKernel, Kernel, RobustKernel};
use delaunay::geometry::point::Point;
use delaunay::geometry::traits::coordinate::CoordinateConversionError;
use std::cell::{Cell, RefCell};

pub const ORIENTATION: &str = "kernel.orientation";
pub const IN_SPHERE: &str = "kernel.in_sphere";

thread_local! {
    static COUNT: Cell<[u64; 2]> = const { Cell::new([0, 0]) };
    static ARMED: RefCell<Vec<(usize, u64)>> = const { RefCell::new(Vec::new()) };
    static FIRED: RefCell<Vec<(usize, u64)>> = const { RefCell::new(Vec::new()) };
    static ANY_ARMED: Cell<bool> = const { Cell::new(false) };
}

fn which(site: &str) -> Option<usize> {
    match site {
        ORIENTATION => Some(0),
        IN_SPHERE => Some(1),
        _ => None,
    }
}

pub fn is_kernel_site(site: &str) -> bool {
    which(site).is_some()
}

/// Install the kernel part of a fault list; returns the remaining (library failpoint) faults.
pub fn begin(faults: &[(String, u64)]) -> Vec<(String, u64)> {
    let mut rest = Vec::with_capacity(faults.len());
    let mut armed = Vec::new();
    for (s, n) in faults {
        match which(s) {
            Some(w) => armed.push((w, *n)),
            None => rest.push((s.clone(), *n)),
        }
    }
    COUNT.with(|c| c.set([0, 0]));
    ANY_ARMED.with(|a| a.set(!armed.is_empty()));
    ARMED.with(|a| *a.borrow_mut() = armed);
    FIRED.with(|f| f.borrow_mut().clear());
    rest
}

/// (per-predicate call counts, fired faults)
pub fn end() -> (Vec<(&'static str, u64)>, Vec<(&'static str, u64)>) {
    let c = COUNT.with(Cell::get);
    ANY_ARMED.with(|a| a.set(false));
    ARMED.with(|a| a.borrow_mut().clear());
    let fired = FIRED.with(|f| std::mem::take(&mut *f.borrow_mut()));
    let name = |w: usize| if w == 0 { ORIENTATION } else { IN_SPHERE };
    let mut counts = Vec::new();
    for w in 0..2 {
        if c[w] > 0 {
            counts.push((name(w), c[w]));
        }
    }
    COUNT.with(|c| c.set([0, 0]));
    (counts, fired.into_iter().map(|(w, n)| (name(w), n)).collect())
}

#[inline]
fn hit(w: usize) -> bool {
    let idx = COUNT.with(|c| {
        let mut v = c.get();
        let i = v[w];
        v[w] += 1;
        c.set(v);
        i
    });
    if !ANY_ARMED.with(Cell::get) {
        return false;
    }
    let armed = ARMED.with(|a| a.borrow().iter().any(|x| *x == (w, idx)));
    if armed {
        FIRED.with(|f| f.borrow_mut().push((w, idx)));
    }
    armed
}

fn injected() -> CoordinateConversionError {
    CoordinateConversionError::ConversionFailed {
        coordinate_index: 0,
        coordinate_value: "simulated predicate failure".to_string(),
        from_type: "f64",
        to_type: "f64",
    }
}

#[derive(Clone, Debug, Default)]
pub struct ErrKernel<K> {
    inner: K,
}

impl<K, const D: usize> Kernel<D> for ErrKernel<K>
where
    K: Kernel<D>,
{
    type Scalar = K::Scalar;

    fn orientation(&self, points: &[Point<Self::Scalar, D>]) -> Result<i32, CoordinateConversionError> {
        if hit(0) {
            return Err(injected());
        }
        self.inner.orientation(points)
    }

    fn in_sphere(
        &self,
        simplex_points: &[Point<Self::Scalar, D>],
        test_point: &Point<Self::Scalar, D>,
    ) -> Result<i32, CoordinateConversionError> {
        if hit(1) {
            return Err(injected());
        }
        self.inner.in_sphere(simplex_points, test_point)
    }
}

pub type SimFast = ErrKernel<FastKernel<f64>>;
pub type SimRobust = ErrKernel<RobustKernel<f64>>;
