//! Operation alphabet in *concrete*, replayable form.
//!
//! A generated operation is recorded with every argument spelled out (coordinate bit
//! patterns, UUIDs, data, handles) so that replay executes the list, never the PRNG.

use serde::{Deserialize, Serialize};

/// 128-bit id rendered as 32 hex digits.
#[derive(Clone, Copy, Debug, PartialEq, Eq, PartialOrd, Ord, Hash)]
pub struct Hex128(pub u128);

impl Serialize for Hex128 {
    fn serialize<S: serde::Serializer>(&self, s: S) -> Result<S::Ok, S::Error> {
        s.serialize_str(&format!("{:032x}", self.0))
    }
}
impl<'de> Deserialize<'de> for Hex128 {
    fn deserialize<D: serde::Deserializer<'de>>(d: D) -> Result<Self, D::Error> {
        let s = String::deserialize(d)?;
        u128::from_str_radix(&s, 16).map(Hex128).map_err(serde::de::Error::custom)
    }
}

/// A vertex to hand to the library: coordinates as exact bit patterns, caller-chosen UUID, data.
#[derive(Clone, Debug, PartialEq, Serialize, Deserialize)]
pub struct VSpec {
    /// f64 bit patterns (exact); `approx` is informational only
    pub bits: Vec<u64>,
    pub uuid: Hex128,
    pub data: Option<i32>,
    /// human-readable rendering of the coordinates (informational; strings so that NaN/inf survive JSON)
    #[serde(default)]
    pub approx: Vec<serde_json::Value>,
    /// raw cell key preset in the public `incident_cell` field of the vertex handed in (a vertex
    /// value copied out of some triangulation carries one; for the receiver it is a stale handle)
    #[serde(default, skip_serializing_if = "Option::is_none")]
    pub incident: Option<u64>,
}

impl VSpec {
    pub fn new(coords: &[f64], uuid: u128, data: Option<i32>) -> Self {
        Self {
            bits: coords.iter().map(|c| c.to_bits()).collect(),
            uuid: Hex128(uuid),
            data,
            approx: coords.iter().map(|c| serde_json::Value::String(format!("{c:?}"))).collect(),
            incident: None,
        }
    }
    pub fn coords(&self) -> Vec<f64> {
        self.bits.iter().map(|b| f64::from_bits(*b)).collect()
    }
}

/// Vertex handle.
#[derive(Clone, Debug, PartialEq, Serialize, Deserialize)]
pub enum VRef {
    /// live vertex addressed by UUID (resolved at execution time)
    Uuid(Hex128),
    /// raw slot-map key (stale / foreign / fabricated)
    Raw(u64),
}

/// Cell handle.
#[derive(Clone, Debug, PartialEq, Serialize, Deserialize)]
pub enum CRef {
    /// live cell addressed by its vertex UUID set
    Verts(Vec<Hex128>),
    /// raw slot-map key (stale / foreign / fabricated)
    Raw(u64),
}

#[derive(Clone, Debug, PartialEq, Serialize, Deserialize)]
pub struct Opts {
    /// Input | Hilbert | Morton | Lexicographic
    pub order: String,
    /// Off | Exact | Epsilon
    pub dedup: String,
    pub dedup_tol_bits: u64,
    /// First | Balanced
    pub simplex: String,
    /// Disabled | Shuffled | DebugOnlyShuffled | Default
    pub retry: String,
    pub retry_attempts: usize,
    pub retry_seed: Option<u64>,
}

impl Default for Opts {
    fn default() -> Self {
        Self {
            order: "Default".into(),
            dedup: "Default".into(),
            dedup_tol_bits: 0,
            simplex: "Default".into(),
            retry: "Default".into(),
            retry_attempts: 0,
            retry_seed: None,
        }
    }
}

#[derive(Clone, Debug, PartialEq, Serialize, Deserialize)]
pub enum Op {
    /// batch construction into slot `obj`; `ctor`: "options_stats" | "options" | "guarantee" | "kernel"
    New { obj: usize, verts: Vec<VSpec>, ctor: String, tg: String, opts: Opts },
    Empty { obj: usize, tg: String },
    Insert { obj: usize, v: VSpec, stats: bool },
    Remove { obj: usize, uuid: Hex128 },
    FlipK1Insert { obj: usize, cell: CRef, v: VSpec },
    FlipK1Remove { obj: usize, v: VRef },
    FlipK2 { obj: usize, cell: CRef, facet: u8 },
    FlipK3 { obj: usize, cell: CRef, omit_a: u8, omit_b: u8 },
    FlipK2Inv { obj: usize, a: VRef, b: VRef },
    FlipK3Inv { obj: usize, a: VRef, b: VRef, c: VRef },
    Repair { obj: usize },
    RepairAdv { obj: usize, seeds: Option<(u64, u64)> },
    /// which: "validation" | "repair" | "check" | "guarantee"
    SetPolicy { obj: usize, which: String, value: String },
    CloneTo { obj: usize, target: usize },
    /// `as_triangulation_mut()` then nothing (cache-dropping no-op)
    TouchMut { obj: usize },
    /// serialise `obj` and load the bytes into `target` (fault-free path)
    SaveLoad { obj: usize, target: usize },
    HullNew { obj: usize, hull: usize },
    HullInvalidate { hull: usize },
    /// pure no-op marker (used by minimiser)
    Nop,
}

impl Op {
    pub fn kind(&self) -> &'static str {
        match self {
            Op::New { .. } => "new",
            Op::Empty { .. } => "empty",
            Op::Insert { stats: false, .. } => "insert",
            Op::Insert { stats: true, .. } => "insert_with_statistics",
            Op::Remove { .. } => "remove_vertex",
            Op::FlipK1Insert { .. } => "flip_k1_insert",
            Op::FlipK1Remove { .. } => "flip_k1_remove",
            Op::FlipK2 { .. } => "flip_k2",
            Op::FlipK3 { .. } => "flip_k3",
            Op::FlipK2Inv { .. } => "flip_k2_inverse_from_edge",
            Op::FlipK3Inv { .. } => "flip_k3_inverse_from_triangle",
            Op::Repair { .. } => "repair_delaunay_with_flips",
            Op::RepairAdv { .. } => "repair_delaunay_with_flips_advanced",
            Op::SetPolicy { .. } => "set_policy",
            Op::CloneTo { .. } => "clone",
            Op::TouchMut { .. } => "as_triangulation_mut",
            Op::SaveLoad { .. } => "save_load",
            Op::HullNew { .. } => "hull_new",
            Op::HullInvalidate { .. } => "hull_invalidate",
            Op::Nop => "nop",
        }
    }

    pub fn obj(&self) -> Option<usize> {
        match self {
            Op::New { obj, .. }
            | Op::Empty { obj, .. }
            | Op::Insert { obj, .. }
            | Op::Remove { obj, .. }
            | Op::FlipK1Insert { obj, .. }
            | Op::FlipK1Remove { obj, .. }
            | Op::FlipK2 { obj, .. }
            | Op::FlipK3 { obj, .. }
            | Op::FlipK2Inv { obj, .. }
            | Op::FlipK3Inv { obj, .. }
            | Op::Repair { obj }
            | Op::RepairAdv { obj, .. }
            | Op::SetPolicy { obj, .. }
            | Op::CloneTo { obj, .. }
            | Op::TouchMut { obj }
            | Op::SaveLoad { obj, .. }
            | Op::HullNew { obj, .. } => Some(*obj),
            Op::HullInvalidate { .. } | Op::Nop => None,
        }
    }

    /// Single-object mutators subject to C03's "unchanged on failure" contract.
    pub fn is_c03_mutator(&self) -> bool {
        matches!(
            self,
            Op::Insert { .. }
                | Op::Remove { .. }
                | Op::FlipK1Insert { .. }
                | Op::FlipK1Remove { .. }
                | Op::FlipK2 { .. }
                | Op::FlipK3 { .. }
                | Op::FlipK2Inv { .. }
                | Op::FlipK3Inv { .. }
                | Op::Repair { .. }
                | Op::RepairAdv { .. }
        )
    }
}

/// One step of a history: the operation plus the faults and knobs in force while it runs.
#[derive(Clone, Debug, PartialEq, Serialize, Deserialize)]
pub struct OpRec {
    /// index in the *original* generated history (sub-stream key; survives minimisation)
    pub idx: u64,
    pub op: Op,
    #[serde(default)]
    pub faults: Vec<(String, u64)>,
    #[serde(default)]
    pub knobs: Vec<(String, usize)>,
}

/// Header of a run / replay file: every per-run configuration choice.
#[derive(Clone, Debug, PartialEq, Serialize, Deserialize)]
pub struct Header {
    pub property: String,
    pub profile: String,
    pub run_seed: u64,
    pub dim: usize,
    pub kernel: String,
    pub family: String,
    /// free-form per-check parameters (tier caps etc.)
    #[serde(default)]
    pub params: std::collections::BTreeMap<String, i64>,
}

#[derive(Clone, Debug, Serialize, Deserialize)]
pub struct ViolationRec {
    pub property: String,
    pub clause: String,
    /// index into `ops` at which it fires
    pub step: usize,
    /// minimal discriminating facts (op kind, site, …) used for known-finding matching
    pub signature: String,
    pub detail: String,
}

#[derive(Clone, Debug, Serialize, Deserialize)]
pub struct ReplayFile {
    pub header: Header,
    pub ops: Vec<OpRec>,
    pub expect: Option<ViolationRec>,
    #[serde(default)]
    pub minimised: bool,
    #[serde(default)]
    pub original_len: usize,
}
