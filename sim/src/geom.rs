//! Exact geometric helpers over `Snap`: convex-boundary test (the boundary of the complex is the
//! boundary of the convex hull of its vertices), used to decide whether a complex is a genuine
//! geometric triangulation (embedded ball) — the precondition under which Delaunay verdicts,
//! point location and hull queries are meaningful.

use crate::exact;
use crate::refval::{self, Report};
use crate::snap::Snap;

#[derive(Clone, Copy, Debug, PartialEq, Eq)]
pub enum Tri {
    Yes,
    No,
    /// some instance fell inside the tolerance band
    Undecided,
}

/// Every vertex lies on the inner side of (or on) the hyperplane of every boundary facet.
pub fn convex_boundary(snap: &Snap) -> Tri {
    let coords = snap.key_to_coords();
    let cells: std::collections::BTreeMap<u64, &crate::snap::SCell> = snap.cells.iter().map(|c| (c.key, c)).collect();
    let mut undecided = false;
    for (facet, cell, opp_idx) in refval::boundary_facets(snap) {
        let Some(c) = cells.get(&cell) else { return Tri::No };
        let Some(opp) = c.verts.get(opp_idx).and_then(|k| coords.get(k)) else { return Tri::No };
        let fpts: Option<Vec<&[f64]>> = facet.iter().map(|k| coords.get(k).copied()).collect();
        let Some(fpts) = fpts else { return Tri::No };
        for v in &snap.verts {
            if facet.contains(&v.key) {
                continue;
            }
            let s = exact::side(&fpts, opp, &v.coords);
            if !s.decidable {
                undecided = true;
                continue;
            }
            if s.sign < 0 {
                return Tri::No;
            }
        }
    }
    if undecided { Tri::Undecided } else { Tri::Yes }
}

/// A complex is a geometric triangulation of the convex hull of its vertices when the reference
/// Levels 1–3 hold (combinatorial ball, coherent orientation, every cell exactly positively
/// oriented) and its boundary is convex.
pub fn embedded(snap: &Snap, rv: &Report) -> Tri {
    if snap.cells.is_empty() || !rv.ok() {
        return Tri::No;
    }
    match rv.geo_positive {
        Some(false) => return Tri::No,
        None => return Tri::Undecided,
        Some(true) => {}
    }
    convex_boundary(snap)
}

/// Exact position of `q` relative to the boundary of the complex.
#[derive(Clone, Debug, PartialEq, Eq)]
pub struct HullPos {
    /// boundary facets (cell key, opposite index) that see `q` strictly on their outer side
    pub visible: Vec<(u64, usize)>,
    /// q lies exactly on the hyperplane of some boundary facet
    pub on_some_hyperplane: bool,
    /// the boundary facets whose hyperplane contains `q` exactly
    pub coplanar: Vec<(u64, usize)>,
    /// every side test was outside the tolerance band
    pub decidable: bool,
}

impl HullPos {
    pub fn strictly_outside(&self) -> bool {
        self.decidable && !self.visible.is_empty()
    }
    pub fn strictly_inside(&self) -> bool {
        self.decidable && self.visible.is_empty() && !self.on_some_hyperplane
    }
    pub fn inside_or_on(&self) -> bool {
        self.decidable && self.visible.is_empty()
    }
}

pub fn hull_position(snap: &Snap, q: &[f64]) -> HullPos {
    let coords = snap.key_to_coords();
    let cells: std::collections::BTreeMap<u64, &crate::snap::SCell> = snap.cells.iter().map(|c| (c.key, c)).collect();
    let mut pos = HullPos { visible: Vec::new(), on_some_hyperplane: false, coplanar: Vec::new(), decidable: true };
    for (facet, cell, opp_idx) in refval::boundary_facets(snap) {
        let Some(c) = cells.get(&cell) else { continue };
        let Some(opp) = c.verts.get(opp_idx).and_then(|k| coords.get(k)) else { continue };
        let fpts: Option<Vec<&[f64]>> = facet.iter().map(|k| coords.get(k).copied()).collect();
        let Some(fpts) = fpts else { continue };
        let s = exact::side(&fpts, opp, q);
        if !s.decidable {
            pos.decidable = false;
        }
        if s.sign < 0 {
            pos.visible.push((cell, opp_idx));
        } else if s.sign == 0 {
            pos.on_some_hyperplane = true;
            pos.coplanar.push((cell, opp_idx));
        }
    }
    pos.visible.sort_unstable();
    pos
}

/// Is `q` in the closed simplex of cell `cell_key`? (inside, decidable)
pub fn in_cell(snap: &Snap, cell_key: u64, q: &[f64]) -> Option<(bool, bool)> {
    let coords = snap.key_to_coords();
    let c = snap.cells.iter().find(|c| c.key == cell_key)?;
    let pts: Option<Vec<&[f64]>> = c.verts.iter().map(|k| coords.get(k).copied()).collect();
    Some(exact::in_closed_simplex(&pts?, q))
}
