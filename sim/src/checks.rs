//! Property checks: which generator profile and which monitors decide each property.

use crate::exec::SimKernel;
use crate::history::{self, Monitor, Profile};
use crate::monitors;
use crate::ops::{Header, OpRec};
use crate::rng::{derive, Rng};
use crate::run::RunReport;
use std::collections::BTreeMap;

pub const CLAIMED: &[&str] = &["C03"];

pub fn make_header(prop: &str, build_profile: &str, verif_seed: u64, run_index: u64) -> Header {
    let run_seed = derive(derive(verif_seed, prop, 0), build_profile, run_index);
    let mut r = Rng::sub(run_seed, "header", 0);
    let dim = crate::generate::pick_dim(&mut r);
    let kernel = if r.chance(1, 2) { "fast" } else { "robust" };
    let profile = profile_for(prop, false);
    let family = *r.pick(profile.families);
    Header {
        property: prop.to_string(),
        profile: build_profile.to_string(),
        run_seed,
        dim,
        kernel: kernel.to_string(),
        family: family.to_string(),
        params: BTreeMap::new(),
    }
}

pub fn profile_for(prop: &str, thorough: bool) -> Profile {
    let mut p = Profile { thorough, ..Profile::default() };
    match prop {
        "C03" => {
            p.min_len = 3;
            p.max_len = if thorough { 14 } else { 9 };
            p.knob_permille = 150;
        }
        _ => {}
    }
    p
}

fn run_generic<K: SimKernel<D>, const D: usize>(header: &Header, replay: Option<&[OpRec]>, thorough: bool) -> RunReport {
    let profile = profile_for(&header.property, thorough);
    match header.property.as_str() {
        "C03" => {
            let mut m = monitors::c03::C03::<K, D>::new(thorough);
            let mut ms: Vec<&mut dyn Monitor<K, D>> = vec![&mut m];
            history::run::<K, D>(header, &profile, replay, &mut ms)
        }
        other => panic!("unknown property {other}"),
    }
}

pub fn run_header(header: &Header, replay: Option<&[OpRec]>, thorough: bool) -> RunReport {
    crate::dispatch!(header.dim, header.kernel.as_str(), run_generic, header, replay, thorough)
}
