//! Property checks: which generator profile and which monitors decide each property.

use crate::exec::SimKernel;
use crate::history::{self, Monitor, Profile};
use crate::monitors;
use crate::ops::{Header, OpRec};
use crate::rng::{derive, Rng};
use crate::run::RunReport;
use std::collections::BTreeMap;

pub const CLAIMED: &[&str] = &["C02", "C03", "C06", "C07", "C08"];

pub fn make_header(prop: &str, build_profile: &str, verif_seed: u64, run_index: u64) -> Header {
    let run_seed = derive(derive(verif_seed, prop, 0), build_profile, run_index);
    let mut r = Rng::sub(run_seed, "header", 0);
    let dim = if prop == "C16" {
        // the wrapping mode is specified for D = 2 and 3 (periodic image-point mode: D = 2)
        [2usize, 3][r.weighted(&[60, 40])]
    } else if prop == "C07" {
        // flips with 2 <= k < D exist only for D >= 4: give those dimensions more of the budget
        [2usize, 3, 4, 5][r.weighted(&[26, 30, 28, 16])]
    } else {
        crate::generate::pick_dim(&mut r)
    };
    let kernel = if r.chance(1, 2) { "fast" } else { "robust" };
    let profile = profile_for(prop, false);
    let family = *r.pick(profile.families);
    let mut params = BTreeMap::new();
    if prop == "C19" {
        params.insert("tick_limit".to_string(), 20_000_000i64);
    }
    Header {
        property: prop.to_string(),
        profile: build_profile.to_string(),
        run_seed,
        dim,
        kernel: kernel.to_string(),
        family: family.to_string(),
        params,
    }
}

pub fn profile_for(prop: &str, thorough: bool) -> Profile {
    let mut p = Profile { thorough, ..Profile::default() };
    match prop {
        "C03" => {
            // the real history also contains failed calls, so that later steps are enumerated from
            // states reached through fault *sequences*
            p.class_b_permille = 150;
            p.kernel_fault_permille = 100;
            p.class_a_permille = 100;
            p.preset_incident_permille = 40;
            p.min_len = 3;
            p.max_len = if thorough { 14 } else { 9 };
            p.knob_permille = 150;
        }
        "C02" => {
            p.class_b_permille = 120;
            p.kernel_fault_permille = 120;
            p.preset_incident_permille = 40;
            p.class_a_permille = 250;
            p.knob_permille = 200;
            p.multi = true;
            p.max_len = if thorough { 24 } else { 16 };
            p.tune = Some(|w, _r, _d| {
                w.insert = 45;
                w.insert_stats = 25;
                w.policy = 6;
            });
        }
        "C06" => {
            p.class_b_permille = 60;
            p.kernel_fault_permille = 100;
            p.class_a_permille = 250;
            p.knob_permille = 200;
            p.max_len = if thorough { 24 } else { 16 };
            p.tune = Some(|w, _r, _d| {
                w.remove = 45;
                w.insert = 30;
            });
        }
        "C07" => {
            p.preset_incident_permille = 60;
            p.max_len = if thorough { 30 } else { 18 };
            p.legal_bias_permille = 500;
            p.small_start_permille = 350;
            p.tune = Some(|w, r, d| {
                w.k1_insert = 12;
                w.k1_remove = 10;
                w.k2 = 25;
                w.k3 = if d >= 3 { 18 } else { 1 };
                w.k2_inv = if d >= 3 { 14 } else { 1 };
                w.k3_inv = if d >= 4 { 12 } else { 1 };
                w.repair = if r.chance(1, 2) { 3 } else { 0 };
                w.insert = 10;
                w.insert_stats = 0;
                w.remove = 4;
            });
        }
        "C04" => {
            p.families = &["grid", "dyadic", "jitter", "cosph", "dyadic", "grid", "small"];
            p.max_len = if thorough { 26 } else { 16 };
            p.multi = true;
            p.tune = Some(|w, r, d| {
                w.k2 = 22;
                w.k3 = if d >= 3 { 10 } else { 1 };
                w.k2_inv = if d >= 3 { 8 } else { 1 };
                w.k1_insert = 8;
                w.remove = 10;
                w.repair = if r.chance(1, 2) { 4 } else { 0 };
                w.policy = 8;
            });
        }
        "C01" => {
            p.dup_heavy_permille = 80;
            p.kernel_fault_permille = 200;
            p.preset_incident_permille = 60;
            p.min_len = 0;
            p.max_len = 0;
            p.random_ctor = true;
            p.always_construct = true;
            p.ctor_fault_permille = 450;
            p.knob_permille = 300;
            p.families = &["grid", "dyadic", "jitter", "cosph", "cluster", "wide", "tiny", "dyadic", "grid"];
        }
        "C05" => {
            p.max_len = if thorough { 14 } else { 8 };
            p.multi = true;
            p.families = &["grid", "dyadic", "jitter", "dyadic"];
        }
        "C09" => {
            p.dup_heavy_permille = 80;
            p.class_b_permille = 120;
            p.kernel_fault_permille = 80;
            p.multi = true;
            p.random_ctor = true;
            p.class_a_permille = 100;
            p.max_len = if thorough { 22 } else { 14 };
            p.families = &["grid", "dyadic", "cluster", "cluster", "wide", "jitter"];
            p.tune = Some(|w, _r, _d| {
                w.k1_insert = 14;
                w.k1_remove = 10;
                w.remove = 20;
                w.repair_adv = 8;
                w.touch = 5;
            });
        }
        "C10" => {
            p.max_len = if thorough { 20 } else { 12 };
            // valid but deliberately non-Delaunay meshes are where the walk can cycle: plausible
            // flip handles half of the time, and the pinwheel family among the inputs
            p.legal_bias_permille = 500;
            p.embedded_k2_permille = 700;
            p.families = &["grid", "dyadic", "jitter", "cosph", "pinwheel", "pinwheel", "dyadic"];
            p.tune = Some(|w, _r, d| {
                w.k2 = 45;
                w.k3 = if d >= 3 { 8 } else { 1 };
                w.remove = 14;
            });
        }
        "C11" => {
            p.class_b_permille = 150;
            p.kernel_fault_permille = 120;
            p.multi = true;
            p.class_a_permille = 150;
            p.knob_permille = 250;
            p.max_len = if thorough { 26 } else { 16 };
            p.tune = Some(|w, _r, _d| {
                w.remove = 30;
                w.insert = 30;
                w.repair_adv = 10;
                w.touch = 4;
            });
        }
        "C13" => {
            p.max_len = if thorough { 16 } else { 9 };
            p.multi = true;
            p.families = &["dyadic", "dyadic", "grid", "jitter", "cluster", "wide"];
            p.tune = Some(|w, _r, _d| {
                w.remove = 25;
                w.k1_insert = 6;
                w.k2 = 8;
            });
        }
        "C19" => {
            p.dup_heavy_permille = 40;
            p.kernel_fault_permille = 150;
            p.preset_incident_permille = 60;
            p.class_a_permille = 200;
            p.knob_permille = 500;
            p.multi = true;
            p.random_ctor = true;
            p.ctor_fault_permille = 200;
            p.nonfinite_permille = 60;
            p.max_len = if thorough { 30 } else { 18 };
            p.families = &["extreme", "extreme", "grid", "dyadic", "jitter", "cosph", "cluster", "wide", "tiny"];
            p.tune = Some(|w, _r, d| {
                w.k2 = 12;
                w.k3 = if d >= 3 { 8 } else { 2 };
                w.k2_inv = if d >= 3 { 6 } else { 2 };
                w.k3_inv = if d >= 4 { 6 } else { 2 };
                w.k1_insert = 8;
                w.k1_remove = 8;
                w.policy = 10;
                w.repair_adv = 6;
                w.touch = 3;
            });
        }
        "C14" => {
            p.families = &["dyadic", "dyadic", "grid", "jitter", "cosph", "offcosph", "offgrid", "cluster"];
        }
        "C16" => {
            p.class_b_permille = 80;
            p.kernel_fault_permille = 80;
            p.toroidal = true;
            p.always_construct = true;
            p.families = &["torus"];
            p.class_a_permille = 250;
            p.knob_permille = 200;
            p.ctor_fault_permille = 250;
            p.multi = true;
            p.max_len = if thorough { 20 } else { 12 };
            p.tune = Some(|w, _r, _d| {
                w.insert = 40;
                w.insert_stats = 25;
                w.remove = 8;
                w.k1_insert = 0;
                w.repair = 4;
                w.repair_adv = 3;
                w.policy = 6;
            });
        }
        "C15" => {
            p.class_b_permille = 120;
            p.kernel_fault_permille = 80;
            p.preset_incident_permille = 40;
            p.class_a_permille = 150;
            p.knob_permille = 150;
            p.multi = true;
            p.periodic2d_permille = 200;
            p.max_len = if thorough { 26 } else { 16 };
        }
        "C08" => {
            p.kernel_fault_permille = 100;
            p.class_a_permille = 300;
            p.knob_permille = 350;
            p.max_len = if thorough { 24 } else { 16 };
            p.tune = Some(|w, _r, d| {
                w.repair = 22;
                w.repair_adv = 16;
                w.k2 = 22;
                w.k3 = if d >= 3 { 10 } else { 1 };
                w.k2_inv = if d >= 3 { 8 } else { 1 };
                w.remove = 10;
                w.policy = 8;
            });
        }
        _ => {}
    }
    p
}

fn run_generic<K: SimKernel<D>, const D: usize>(header: &Header, replay: Option<&[OpRec]>, thorough: bool) -> RunReport {
    let profile = profile_for(&header.property, thorough);
    match header.property.as_str() {
        "C03" => {
            let mut m = monitors::c03::C03::<K, D>::new(thorough);
            let mut ms: Vec<&mut dyn Monitor<K, D>> = vec![&mut m];
            history::run::<K, D>(header, &profile, replay, &mut ms)
        }
        "C02" | "C06" | "C07" | "C08" => {
            let mut m = monitors::valid::Valid {
                c02: header.property == "C02",
                c06: header.property == "C06",
                c07: header.property == "C07",
                c08: header.property == "C08",
            };
            let mut ms: Vec<&mut dyn Monitor<K, D>> = vec![&mut m];
            history::run::<K, D>(header, &profile, replay, &mut ms)
        }
        "C16" => {
            let mut m = monitors::c16::C16::default();
            let mut ms: Vec<&mut dyn Monitor<K, D>> = vec![&mut m];
            history::run::<K, D>(header, &profile, replay, &mut ms)
        }
        "C01" => {
            let mut m = monitors::c01::C01;
            let mut ms: Vec<&mut dyn Monitor<K, D>> = vec![&mut m];
            history::run::<K, D>(header, &profile, replay, &mut ms)
        }
        "C05" => {
            let mut m = monitors::c05::C05 { thorough };
            let mut ms: Vec<&mut dyn Monitor<K, D>> = vec![&mut m];
            history::run::<K, D>(header, &profile, replay, &mut ms)
        }
        "C09" => {
            let mut m = monitors::c09::C09 { former: Vec::new() };
            let mut ms: Vec<&mut dyn Monitor<K, D>> = vec![&mut m];
            history::run::<K, D>(header, &profile, replay, &mut ms)
        }
        "C10" => {
            let mut m = monitors::c10::C10 { stale: Vec::new() };
            let mut ms: Vec<&mut dyn Monitor<K, D>> = vec![&mut m];
            history::run::<K, D>(header, &profile, replay, &mut ms)
        }
        "C11" => {
            let mut m = monitors::c11::C11::<K, D>::new();
            let mut ms: Vec<&mut dyn Monitor<K, D>> = vec![&mut m];
            history::run::<K, D>(header, &profile, replay, &mut ms)
        }
        "C13" => {
            let mut m = monitors::c13::C13 { thorough };
            let mut ms: Vec<&mut dyn Monitor<K, D>> = vec![&mut m];
            history::run::<K, D>(header, &profile, replay, &mut ms)
        }
        "C19" => {
            let mut m = monitors::c19::C19::<K, D>::default();
            let mut ms: Vec<&mut dyn Monitor<K, D>> = vec![&mut m];
            history::run::<K, D>(header, &profile, replay, &mut ms)
        }
        "C15" => {
            let mut m = monitors::c15::C15;
            let mut ms: Vec<&mut dyn Monitor<K, D>> = vec![&mut m];
            history::run::<K, D>(header, &profile, replay, &mut ms)
        }
        "C04" => {
            let mut m = monitors::c04::C04;
            let mut ms: Vec<&mut dyn Monitor<K, D>> = vec![&mut m];
            history::run::<K, D>(header, &profile, replay, &mut ms)
        }
        other => panic!("unknown property {other}"),
    }
}

pub fn run_header(header: &Header, replay: Option<&[OpRec]>, thorough: bool) -> RunReport {
    if header.property == "C14" {
        return match header.dim {
            2 => crate::c14::run::<2>(header, replay, thorough),
            3 => crate::c14::run::<3>(header, replay, thorough),
            4 => crate::c14::run::<4>(header, replay, thorough),
            _ => crate::c14::run::<5>(header, replay, thorough),
        };
    }
    crate::dispatch!(header.dim, header.kernel.as_str(), run_generic, header, replay, thorough)
}

fn dump_generic<K: SimKernel<D>, const D: usize>(header: &Header, ops: &[OpRec]) -> Vec<crate::snap::Snap> {
    let mut world: history::World<K, D> = history::World { objs: (0..history::SLOTS).map(|_| None).collect() };
    for o in ops {
        let _ = history::execute(&mut world, header, o);
    }
    world.objs.iter().flatten().map(crate::snap::Snap::of).collect()
}

pub fn dump_header(header: &Header, ops: &[OpRec]) -> Vec<crate::snap::Snap> {
    crate::dispatch!(header.dim, header.kernel.as_str(), dump_generic, header, ops)
}
