//! Property checks: which generator profile and which monitors decide each property.

use crate::exec::SimKernel;
use crate::history::{self, Monitor, Profile};
use crate::monitors;
use crate::ops::{Header, OpRec};
use crate::rng::{derive, Rng};
use crate::run::RunReport;
use std::collections::BTreeMap;

pub const CLAIMED: &[&str] = &["C02", "C03", "C06", "C07", "C08"];

pub fn make_header(prop: &str, build_profile: &str, verif_seed: u64, run_index: u64) -> Header {
    let run_seed = derive(derive(verif_seed, prop, 0), build_profile, run_index);
    let mut r = Rng::sub(run_seed, "header", 0);
    let dim = crate::generate::pick_dim(&mut r);
    let kernel = if r.chance(1, 2) { "fast" } else { "robust" };
    let profile = profile_for(prop, false);
    let family = *r.pick(profile.families);
    Header {
        property: prop.to_string(),
        profile: build_profile.to_string(),
        run_seed,
        dim,
        kernel: kernel.to_string(),
        family: family.to_string(),
        params: BTreeMap::new(),
    }
}

pub fn profile_for(prop: &str, thorough: bool) -> Profile {
    let mut p = Profile { thorough, ..Profile::default() };
    match prop {
        "C03" => {
            p.min_len = 3;
            p.max_len = if thorough { 14 } else { 9 };
            p.knob_permille = 150;
        }
        "C02" => {
            p.class_a_permille = 250;
            p.knob_permille = 200;
            p.multi = true;
            p.max_len = if thorough { 24 } else { 16 };
            p.tune = Some(|w, _r, _d| {
                w.insert = 45;
                w.insert_stats = 25;
                w.policy = 6;
            });
        }
        "C06" => {
            p.class_a_permille = 250;
            p.knob_permille = 200;
            p.max_len = if thorough { 24 } else { 16 };
            p.tune = Some(|w, _r, _d| {
                w.remove = 45;
                w.insert = 30;
            });
        }
        "C07" => {
            p.max_len = if thorough { 30 } else { 18 };
            p.tune = Some(|w, r, d| {
                w.k1_insert = 12;
                w.k1_remove = 10;
                w.k2 = 25;
                w.k3 = if d >= 3 { 18 } else { 1 };
                w.k2_inv = if d >= 3 { 14 } else { 1 };
                w.k3_inv = if d >= 4 { 12 } else { 1 };
                w.repair = if r.chance(1, 2) { 3 } else { 0 };
                w.insert = 10;
                w.insert_stats = 0;
                w.remove = 4;
            });
        }
        "C04" => {
            p.max_len = if thorough { 26 } else { 16 };
            p.multi = true;
            p.tune = Some(|w, r, d| {
                w.k2 = 22;
                w.k3 = if d >= 3 { 10 } else { 1 };
                w.k2_inv = if d >= 3 { 8 } else { 1 };
                w.k1_insert = 8;
                w.remove = 10;
                w.repair = if r.chance(1, 2) { 4 } else { 0 };
                w.policy = 8;
            });
        }
        "C15" => {
            p.class_a_permille = 150;
            p.knob_permille = 150;
            p.multi = true;
            p.max_len = if thorough { 26 } else { 16 };
        }
        "C08" => {
            p.class_a_permille = 300;
            p.knob_permille = 350;
            p.max_len = if thorough { 24 } else { 16 };
            p.tune = Some(|w, _r, d| {
                w.repair = 22;
                w.repair_adv = 16;
                w.k2 = 22;
                w.k3 = if d >= 3 { 10 } else { 1 };
                w.k2_inv = if d >= 3 { 8 } else { 1 };
                w.remove = 10;
                w.policy = 8;
            });
        }
        _ => {}
    }
    p
}

fn run_generic<K: SimKernel<D>, const D: usize>(header: &Header, replay: Option<&[OpRec]>, thorough: bool) -> RunReport {
    let profile = profile_for(&header.property, thorough);
    match header.property.as_str() {
        "C03" => {
            let mut m = monitors::c03::C03::<K, D>::new(thorough);
            let mut ms: Vec<&mut dyn Monitor<K, D>> = vec![&mut m];
            history::run::<K, D>(header, &profile, replay, &mut ms)
        }
        "C02" | "C06" | "C07" | "C08" => {
            let mut m = monitors::valid::Valid {
                c02: header.property == "C02",
                c06: header.property == "C06",
                c07: header.property == "C07",
                c08: header.property == "C08",
            };
            let mut ms: Vec<&mut dyn Monitor<K, D>> = vec![&mut m];
            history::run::<K, D>(header, &profile, replay, &mut ms)
        }
        "C15" => {
            let mut m = monitors::c15::C15;
            let mut ms: Vec<&mut dyn Monitor<K, D>> = vec![&mut m];
            history::run::<K, D>(header, &profile, replay, &mut ms)
        }
        "C04" => {
            let mut m = monitors::c04::C04;
            let mut ms: Vec<&mut dyn Monitor<K, D>> = vec![&mut m];
            history::run::<K, D>(header, &profile, replay, &mut ms)
        }
        other => panic!("unknown property {other}"),
    }
}

pub fn run_header(header: &Header, replay: Option<&[OpRec]>, thorough: bool) -> RunReport {
    crate::dispatch!(header.dim, header.kernel.as_str(), run_generic, header, replay, thorough)
}

fn dump_generic<K: SimKernel<D>, const D: usize>(header: &Header, ops: &[OpRec]) -> Vec<crate::snap::Snap> {
    let mut world: history::World<K, D> = history::World { objs: (0..history::SLOTS).map(|_| None).collect() };
    for o in ops {
        let _ = history::execute(&mut world, header, o);
    }
    world.objs.iter().flatten().map(crate::snap::Snap::of).collect()
}

pub fn dump_header(header: &Header, ops: &[OpRec]) -> Vec<crate::snap::Snap> {
    crate::dispatch!(header.dim, header.kernel.as_str(), dump_generic, header, ops)
}
