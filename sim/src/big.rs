//! Minimal arbitrary-precision signed integer (add, sub, mul, shift-left, compare).
//! No external bigint crate is available offline; this is all the exact oracle needs.

use std::cmp::Ordering;

#[derive(Clone, Debug, PartialEq, Eq)]
pub struct Big {
    /// -1, 0, +1
    sign: i8,
    /// little-endian 32-bit limbs, no trailing zeros; empty iff zero
    mag: Vec<u32>,
}

fn trim(v: &mut Vec<u32>) {
    while v.last() == Some(&0) {
        v.pop();
    }
}

fn cmp_mag(a: &[u32], b: &[u32]) -> Ordering {
    if a.len() != b.len() {
        return a.len().cmp(&b.len());
    }
    for i in (0..a.len()).rev() {
        if a[i] != b[i] {
            return a[i].cmp(&b[i]);
        }
    }
    Ordering::Equal
}

fn add_mag(a: &[u32], b: &[u32]) -> Vec<u32> {
    let (a, b) = if a.len() >= b.len() { (a, b) } else { (b, a) };
    let mut out = Vec::with_capacity(a.len() + 1);
    let mut carry = 0u64;
    for i in 0..a.len() {
        let s = u64::from(a[i]) + u64::from(*b.get(i).unwrap_or(&0)) + carry;
        out.push(s as u32);
        carry = s >> 32;
    }
    if carry > 0 {
        out.push(carry as u32);
    }
    out
}

/// a - b, requires |a| >= |b|
fn sub_mag(a: &[u32], b: &[u32]) -> Vec<u32> {
    let mut out = Vec::with_capacity(a.len());
    let mut borrow = 0i64;
    for i in 0..a.len() {
        let mut d = i64::from(a[i]) - i64::from(*b.get(i).unwrap_or(&0)) - borrow;
        if d < 0 {
            d += 1 << 32;
            borrow = 1;
        } else {
            borrow = 0;
        }
        out.push(d as u32);
    }
    trim(&mut out);
    out
}

fn mul_mag(a: &[u32], b: &[u32]) -> Vec<u32> {
    if a.is_empty() || b.is_empty() {
        return Vec::new();
    }
    let mut out = vec![0u32; a.len() + b.len()];
    for (i, &x) in a.iter().enumerate() {
        let mut carry = 0u64;
        let x = u64::from(x);
        for (j, &y) in b.iter().enumerate() {
            let cur = u64::from(out[i + j]) + x * u64::from(y) + carry;
            out[i + j] = cur as u32;
            carry = cur >> 32;
        }
        let mut k = i + b.len();
        while carry > 0 {
            let cur = u64::from(out[k]) + carry;
            out[k] = cur as u32;
            carry = cur >> 32;
            k += 1;
        }
    }
    trim(&mut out);
    out
}

impl Big {
    pub fn zero() -> Self {
        Self { sign: 0, mag: Vec::new() }
    }

    pub fn one() -> Self {
        Self::from_i64(1)
    }

    pub fn from_i64(v: i64) -> Self {
        Self::from_i128(i128::from(v))
    }

    pub fn from_i128(v: i128) -> Self {
        if v == 0 {
            return Self::zero();
        }
        let sign = if v < 0 { -1 } else { 1 };
        let mut m = v.unsigned_abs();
        let mut mag = Vec::new();
        while m > 0 {
            mag.push(m as u32);
            m >>= 32;
        }
        Self { sign, mag }
    }

    pub fn is_zero(&self) -> bool {
        self.sign == 0
    }

    /// -1, 0, +1
    pub fn signum(&self) -> i32 {
        i32::from(self.sign)
    }

    pub fn neg(&self) -> Self {
        Self { sign: -self.sign, mag: self.mag.clone() }
    }

    pub fn abs(&self) -> Self {
        Self { sign: self.sign.abs(), mag: self.mag.clone() }
    }

    pub fn add(&self, o: &Self) -> Self {
        if self.sign == 0 {
            return o.clone();
        }
        if o.sign == 0 {
            return self.clone();
        }
        if self.sign == o.sign {
            return Self { sign: self.sign, mag: add_mag(&self.mag, &o.mag) };
        }
        match cmp_mag(&self.mag, &o.mag) {
            Ordering::Equal => Self::zero(),
            Ordering::Greater => Self { sign: self.sign, mag: sub_mag(&self.mag, &o.mag) },
            Ordering::Less => Self { sign: o.sign, mag: sub_mag(&o.mag, &self.mag) },
        }
    }

    pub fn sub(&self, o: &Self) -> Self {
        self.add(&o.neg())
    }

    pub fn mul(&self, o: &Self) -> Self {
        if self.sign == 0 || o.sign == 0 {
            return Self::zero();
        }
        Self { sign: self.sign * o.sign, mag: mul_mag(&self.mag, &o.mag) }
    }

    pub fn shl(&self, bits: u32) -> Self {
        if self.sign == 0 || bits == 0 {
            return self.clone();
        }
        let limbs = (bits / 32) as usize;
        let rem = bits % 32;
        let mut mag = vec![0u32; limbs];
        if rem == 0 {
            mag.extend_from_slice(&self.mag);
        } else {
            let mut carry = 0u32;
            for &l in &self.mag {
                mag.push((l << rem) | carry);
                carry = l >> (32 - rem);
            }
            if carry > 0 {
                mag.push(carry);
            }
        }
        Self { sign: self.sign, mag }
    }

    pub fn cmp(&self, o: &Self) -> Ordering {
        if self.sign != o.sign {
            return self.sign.cmp(&o.sign);
        }
        let m = cmp_mag(&self.mag, &o.mag);
        if self.sign >= 0 { m } else { m.reverse() }
    }

    pub fn cmp_abs(&self, o: &Self) -> Ordering {
        cmp_mag(&self.mag, &o.mag)
    }

    /// Number of significant bits of |self|.
    pub fn bits(&self) -> u32 {
        match self.mag.last() {
            None => 0,
            Some(&top) => (self.mag.len() as u32 - 1) * 32 + (32 - top.leading_zeros()),
        }
    }

    /// log2(|self|) approximately (f64), -inf for zero.
    pub fn log2_abs(&self) -> f64 {
        if self.sign == 0 {
            return f64::NEG_INFINITY;
        }
        let n = self.mag.len();
        // take top up-to-3 limbs
        let mut top: f64 = 0.0;
        let take = n.min(3);
        for i in 0..take {
            top = top * 4294967296.0 + f64::from(self.mag[n - 1 - i]);
        }
        top.log2() + 32.0 * (n - take) as f64
    }

    /// Exact integer value of a finite f64 scaled by 2^(-min_exp): `v * 2^(-min_exp)` must be an integer.
    /// Returns (mantissa, exponent) decomposition helper instead; see `from_f64_scaled`.
    pub fn from_f64_scaled(v: f64, min_exp: i32) -> Self {
        let (m, e) = decompose(v);
        if m == 0 {
            return Self::zero();
        }
        debug_assert!(e >= min_exp);
        Self::from_i128(i128::from(m)).shl((e - min_exp) as u32)
    }
}

/// v = m * 2^e exactly, m odd or zero (m signed, |m| < 2^53).
pub fn decompose(v: f64) -> (i64, i32) {
    assert!(v.is_finite(), "non-finite coordinate reached exact oracle");
    if v == 0.0 {
        return (0, 0);
    }
    let bits = v.to_bits();
    let sign = if (bits >> 63) != 0 { -1i64 } else { 1i64 };
    let exp = ((bits >> 52) & 0x7ff) as i32;
    let frac = (bits & 0x000f_ffff_ffff_ffff) as i64;
    let (mut m, mut e) = if exp == 0 { (frac, -1074) } else { (frac | (1i64 << 52), exp - 1075) };
    let tz = m.trailing_zeros() as i32;
    m >>= tz;
    e += tz;
    (sign * m, e)
}

#[cfg(test)]
mod tests {
    use super::*;
    #[test]
    fn basic() {
        let a = Big::from_i128(123456789012345678901234567890i128);
        let b = Big::from_i128(-98765432109876543210i128);
        assert_eq!(a.add(&b), Big::from_i128(123456789012345678901234567890i128 - 98765432109876543210i128));
        assert_eq!(a.sub(&a), Big::zero());
        let c = Big::from_i64(1 << 40).mul(&Big::from_i64(-(1 << 41)));
        assert_eq!(c, Big::from_i128(-(1i128 << 81)));
        assert_eq!(Big::from_i64(3).shl(70), Big::from_i128(3i128 << 70));
        assert_eq!(decompose(0.75), (3, -2));
        assert_eq!(decompose(-8.0), (-1, 3));
        assert_eq!(Big::from_f64_scaled(0.75, -4), Big::from_i64(12));
    }
}
