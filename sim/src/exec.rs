//! Executing concrete operations against the real library, under an installed fault plan,
//! knob set, seeded UUID stream and tick clock, with panics caught.

use crate::ops::{CRef, Hex128, Op, Opts, VRef, VSpec};
use crate::snap::{Dt, U, V};
use delaunay::core::delaunay_triangulation::{
    ConstructionOptions, DedupPolicy, DelaunayCheckPolicy, DelaunayRepairHeuristicConfig,
    DelaunayRepairPolicy, InitialSimplexStrategy, InsertionOrderStrategy, RetryPolicy,
};
use delaunay::core::facet::FacetHandle;
use delaunay::core::operations::InsertionOutcome;
use delaunay::core::triangulation::{TopologyGuarantee, ValidationPolicy};
use delaunay::core::triangulation_data_structure::{CellKey, Tds, VertexKey};
use delaunay::core::vertex::Vertex;
use delaunay::geometry::kernel::Kernel;
use delaunay::geometry::point::Point;
use delaunay::geometry::traits::coordinate::Coordinate;
use delaunay::triangulation::flips::{BistellarFlips, EdgeKey, RidgeHandle, TriangleHandle};
use slotmap::{Key, KeyData};
use std::num::NonZeroUsize;
use std::panic::{catch_unwind, AssertUnwindSafe};
use uuid::Uuid;

pub trait SimKernel<const D: usize>: Kernel<D, Scalar = f64> + Clone + Default + 'static {}
impl<const D: usize, K> SimKernel<D> for K where K: Kernel<D, Scalar = f64> + Clone + Default + 'static {}

#[derive(Clone, Copy, Debug, PartialEq, Eq)]
pub enum OutKind {
    Ok,
    Skipped,
    Err,
    Panic,
    /// the op could not be expressed (e.g. symbolic handle no longer resolves, missing object)
    Unresolved,
}

#[derive(Clone, Debug, Default)]
pub struct FlipLite {
    pub k: usize,
    pub removed_cells: Vec<u64>,
    pub new_cells: Vec<u64>,
    pub removed_face: Vec<u64>,
    pub inserted_face: Vec<u64>,
    pub forward: bool,
}

#[derive(Clone, Debug)]
pub struct Outcome {
    pub kind: OutKind,
    /// error variant / short tag
    pub tag: String,
    /// longer description (error Display), truncated
    pub detail: String,
    pub vertex_key: Option<u64>,
    pub cells_removed: Option<usize>,
    pub flip: Option<FlipLite>,
    pub flips_performed: Option<usize>,
    pub used_heuristic: bool,
    pub attempts: Option<usize>,
    /// construction statistics: (inserted, skipped_duplicate, skipped_degeneracy, skip sample uuids)
    pub cstats: Option<(usize, usize, usize, Vec<u128>)>,
    pub ticks: u64,
    pub fired: Vec<(String, u64)>,
    pub counts: Vec<(String, u64)>,
    pub trace: Vec<(String, u64)>,
    /// work ticks by kind (loop heads reached inside the library)
    pub tick_kinds: Vec<(String, u64)>,
    /// bounded loops: (kind, largest iteration ordinal, largest budget reported by the library,
    /// largest excess of an ordinal over the budget reported with it)
    pub loop_iters: Vec<(String, u64, u64, u64)>,
}

impl Outcome {
    fn new(kind: OutKind, tag: &str, detail: String) -> Self {
        Self {
            kind,
            tag: tag.to_string(),
            detail,
            vertex_key: None,
            cells_removed: None,
            flip: None,
            flips_performed: None,
            used_heuristic: false,
            attempts: None,
            cstats: None,
            ticks: 0,
            fired: Vec::new(),
            counts: Vec::new(),
            trace: Vec::new(),
            tick_kinds: Vec::new(),
            loop_iters: Vec::new(),
        }
    }
    pub fn unresolved(why: &str) -> Self {
        Self::new(OutKind::Unresolved, "unresolved", why.to_string())
    }
    /// a simulated predicate failure (kernel seam) fired during this call. The library treats a
    /// failing predicate as "inconclusive" in its Delaunay verification by design, so a call
    /// that absorbed one is not held to the Delaunay clauses (it is to all the others).
    pub fn predicate_failure_absorbed(&self) -> bool {
        self.fired.iter().any(|(s, _)| crate::kfault::is_kernel_site(s))
    }
    pub fn failed(&self) -> bool {
        matches!(self.kind, OutKind::Err | OutKind::Skipped)
    }
    pub fn class(&self) -> String {
        format!("{:?}:{}", self.kind, self.tag)
    }
}

fn variant_of(dbg: &str) -> String {
    dbg.split(|c: char| !(c.is_alphanumeric() || c == '_')).next().unwrap_or("").to_string()
}

fn trunc(s: String) -> String {
    if s.len() > 300 {
        let mut e = 300;
        while !s.is_char_boundary(e) {
            e -= 1;
        }
        format!("{}…", &s[..e])
    } else {
        s
    }
}

pub fn vkey(raw: u64) -> VertexKey {
    VertexKey::from(KeyData::from_ffi(raw))
}
pub fn ckey(raw: u64) -> CellKey {
    CellKey::from(KeyData::from_ffi(raw))
}

pub fn make_vertex<const D: usize>(v: &VSpec) -> Option<Vertex<f64, U, D>> {
    if v.bits.len() != D {
        return None;
    }
    let mut c = [0.0f64; D];
    for (i, b) in v.bits.iter().enumerate() {
        c[i] = f64::from_bits(*b);
    }
    let mut vertex = Vertex::new_with_uuid(Point::new(c), Uuid::from_u128(v.uuid.0), v.data);
    if let Some(raw) = v.incident {
        vertex.incident_cell = Some(ckey(raw));
    }
    Some(vertex)
}

pub fn tg_from(s: &str) -> TopologyGuarantee {
    match s {
        "Pseudomanifold" => TopologyGuarantee::Pseudomanifold,
        "PLManifoldStrict" => TopologyGuarantee::PLManifoldStrict,
        _ => TopologyGuarantee::PLManifold,
    }
}

pub fn opts_from(o: &Opts) -> ConstructionOptions {
    let mut c = ConstructionOptions::default();
    c = match o.order.as_str() {
        "Input" => c.with_insertion_order(InsertionOrderStrategy::Input),
        "Hilbert" => c.with_insertion_order(InsertionOrderStrategy::Hilbert),
        "Morton" => c.with_insertion_order(InsertionOrderStrategy::Morton),
        "Lexicographic" => c.with_insertion_order(InsertionOrderStrategy::Lexicographic),
        _ => c,
    };
    c = match o.dedup.as_str() {
        "Off" => c.with_dedup_policy(DedupPolicy::Off),
        "Exact" => c.with_dedup_policy(DedupPolicy::Exact),
        "Epsilon" => c.with_dedup_policy(DedupPolicy::Epsilon { tolerance: f64::from_bits(o.dedup_tol_bits) }),
        _ => c,
    };
    c = match o.simplex.as_str() {
        "First" => c.with_initial_simplex_strategy(InitialSimplexStrategy::First),
        "Balanced" => c.with_initial_simplex_strategy(InitialSimplexStrategy::Balanced),
        _ => c,
    };
    let attempts = NonZeroUsize::new(o.retry_attempts.max(1)).expect("nonzero");
    c = match o.retry.as_str() {
        "Disabled" => c.with_retry_policy(RetryPolicy::Disabled),
        "Shuffled" => c.with_retry_policy(RetryPolicy::Shuffled { attempts, base_seed: o.retry_seed }),
        "DebugOnlyShuffled" => {
            c.with_retry_policy(RetryPolicy::DebugOnlyShuffled { attempts, base_seed: o.retry_seed })
        }
        _ => c,
    };
    c
}

pub fn resolve_vref<K: SimKernel<D>, const D: usize>(dt: &Dt<K, D>, r: &VRef) -> Option<VertexKey> {
    match r {
        VRef::Raw(raw) => Some(vkey(*raw)),
        VRef::Uuid(Hex128(u)) => dt.tds().vertex_key_from_uuid(&Uuid::from_u128(*u)),
    }
}

pub fn resolve_cref<K: SimKernel<D>, const D: usize>(dt: &Dt<K, D>, r: &CRef) -> Option<CellKey> {
    match r {
        CRef::Raw(raw) => Some(ckey(*raw)),
        CRef::Verts(us) => {
            let mut keys: Vec<VertexKey> = Vec::with_capacity(us.len());
            for Hex128(u) in us {
                keys.push(dt.tds().vertex_key_from_uuid(&Uuid::from_u128(*u))?);
            }
            for (ck, c) in dt.cells() {
                let vs = c.vertices();
                if vs.len() == keys.len() && keys.iter().all(|k| vs.contains(k)) {
                    return Some(ck);
                }
            }
            None
        }
    }
}

/// Everything the simulator installs around one library call.
#[derive(Clone, Debug, Default)]
pub struct Plan {
    pub faults: Vec<(String, u64)>,
    pub knobs: Vec<(String, usize)>,
    pub uuid_seed: u64,
    pub tick_limit: u64,
}

fn own(v: Vec<(&'static str, u64)>) -> Vec<(String, u64)> {
    v.into_iter().map(|(s, n)| (s.to_string(), n)).collect()
}

/// Run `f` with the plan installed; panics are caught and reported as `OutKind::Panic`.
pub fn with_plan<F>(plan: &Plan, f: F) -> Outcome
where
    F: FnOnce() -> Outcome,
{
    delaunay::verif::knob::set_all(&plan.knobs);
    delaunay::verif::uuid::seed(Some(plan.uuid_seed));
    delaunay::verif::tick::reset(if plan.tick_limit == 0 { u64::MAX } else { plan.tick_limit });
    let lib_faults = crate::kfault::begin(&plan.faults);
    delaunay::verif::fail::begin(&lib_faults);
    let res = catch_unwind(AssertUnwindSafe(f));
    let (mut counts, mut fired, trace) = delaunay::verif::fail::end();
    let (kcounts, kfired) = crate::kfault::end();
    counts.extend(kcounts);
    fired.extend(kfired);
    let ticks = delaunay::verif::tick::total();
    let tick_kinds = own(delaunay::verif::tick::by_kind());
    let loop_iters: Vec<(String, u64, u64, u64)> = delaunay::verif::tick::iters().into_iter().map(|(k, a, b, c)| (k.to_string(), a, b, c)).collect();
    delaunay::verif::tick::reset(u64::MAX);
    delaunay::verif::knob::set_all(&[]);
    delaunay::verif::uuid::seed(None);
    let mut out = match res {
        Ok(o) => o,
        Err(payload) => {
            let msg = if let Some(s) = payload.downcast_ref::<&str>() {
                (*s).to_string()
            } else if let Some(s) = payload.downcast_ref::<String>() {
                s.clone()
            } else {
                "non-string panic payload".to_string()
            };
            let tag = if msg.contains(delaunay::verif::tick::CEILING_MARKER) { "tick-ceiling" } else { "panic" };
            Outcome::new(OutKind::Panic, tag, trunc(msg))
        }
    };
    out.ticks = ticks;
    out.tick_kinds = tick_kinds;
    out.loop_iters = loop_iters;
    out.counts = own(counts);
    out.fired = own(fired);
    out.trace = own(trace);
    out
}

fn flip_out<const D: usize>(
    r: Result<delaunay::triangulation::flips::FlipInfo<D>, delaunay::triangulation::flips::FlipError>,
) -> Outcome {
    match r {
        Ok(info) => {
            let mut o = Outcome::new(OutKind::Ok, "flip", String::new());
            o.flip = Some(FlipLite {
                k: info.removed_cells.len(),
                removed_cells: info.removed_cells.iter().map(|c| c.data().as_ffi()).collect(),
                new_cells: info.new_cells.iter().map(|c| c.data().as_ffi()).collect(),
                removed_face: info.removed_face_vertices.iter().map(|v| v.data().as_ffi()).collect(),
                inserted_face: info.inserted_face_vertices.iter().map(|v| v.data().as_ffi()).collect(),
                forward: matches!(info.direction, delaunay::triangulation::flips::FlipDirection::Forward),
            });
            o
        }
        Err(e) => Outcome::new(OutKind::Err, &variant_of(&format!("{e:?}")), trunc(e.to_string())),
    }
}

/// Apply a single-object mutator to `dt`. Must be called inside `with_plan`.
pub fn apply_mutator<K: SimKernel<D>, const D: usize>(dt: &mut Dt<K, D>, op: &Op) -> Outcome {
    match op {
        Op::Insert { v, stats, .. } => {
            let Some(vertex) = make_vertex::<D>(v) else { return Outcome::unresolved("dimension") };
            if *stats {
                match dt.insert_with_statistics(vertex) {
                    Ok((InsertionOutcome::Inserted { vertex_key, .. }, st)) => {
                        let mut o = Outcome::new(OutKind::Ok, "inserted", String::new());
                        o.vertex_key = Some(vertex_key.data().as_ffi());
                        o.attempts = Some(st.attempts);
                        o.cells_removed = Some(st.cells_removed_during_repair);
                        o
                    }
                    Ok((InsertionOutcome::Skipped { error }, st)) => {
                        let mut o = Outcome::new(
                            OutKind::Skipped,
                            &variant_of(&format!("{error:?}")),
                            trunc(error.to_string()),
                        );
                        o.attempts = Some(st.attempts);
                        o
                    }
                    Err(e) => Outcome::new(OutKind::Err, &variant_of(&format!("{e:?}")), trunc(e.to_string())),
                }
            } else {
                match dt.insert(vertex) {
                    Ok(k) => {
                        let mut o = Outcome::new(OutKind::Ok, "inserted", String::new());
                        o.vertex_key = Some(k.data().as_ffi());
                        o
                    }
                    Err(e) => Outcome::new(OutKind::Err, &variant_of(&format!("{e:?}")), trunc(e.to_string())),
                }
            }
        }
        Op::Remove { uuid, .. } => {
            let u = Uuid::from_u128(uuid.0);
            let vertex: Vertex<f64, U, D> = match dt.tds().vertex_key_from_uuid(&u).and_then(|k| dt.tds().get_vertex_by_key(k)) {
                Some(v) => *v,
                None => Vertex::new_with_uuid(Point::new([0.0; D]), u, None),
            };
            match dt.remove_vertex(&vertex) {
                Ok(n) => {
                    let mut o = Outcome::new(OutKind::Ok, "removed", String::new());
                    o.cells_removed = Some(n);
                    o
                }
                Err(e) => Outcome::new(OutKind::Err, &variant_of(&format!("{e:?}")), trunc(e.to_string())),
            }
        }
        Op::FlipK1Insert { cell, v, .. } => {
            let Some(ck) = resolve_cref(dt, cell) else { return Outcome::unresolved("cell") };
            let Some(vertex) = make_vertex::<D>(v) else { return Outcome::unresolved("dimension") };
            flip_out(dt.flip_k1_insert(ck, vertex))
        }
        Op::FlipK1Remove { v, .. } => {
            let Some(vk) = resolve_vref(dt, v) else { return Outcome::unresolved("vertex") };
            flip_out(dt.flip_k1_remove(vk))
        }
        Op::FlipK2 { cell, facet, .. } => {
            let Some(ck) = resolve_cref(dt, cell) else { return Outcome::unresolved("cell") };
            flip_out(dt.flip_k2(FacetHandle::new(ck, *facet)))
        }
        Op::FlipK3 { cell, omit_a, omit_b, .. } => {
            let Some(ck) = resolve_cref(dt, cell) else { return Outcome::unresolved("cell") };
            flip_out(dt.flip_k3(RidgeHandle::new(ck, *omit_a, *omit_b)))
        }
        Op::FlipK2Inv { a, b, .. } => {
            let (Some(ka), Some(kb)) = (resolve_vref(dt, a), resolve_vref(dt, b)) else {
                return Outcome::unresolved("vertex");
            };
            flip_out(dt.flip_k2_inverse_from_edge(EdgeKey::new(ka, kb)))
        }
        Op::FlipK3Inv { a, b, c, .. } => {
            let (Some(ka), Some(kb), Some(kc)) = (resolve_vref(dt, a), resolve_vref(dt, b), resolve_vref(dt, c)) else {
                return Outcome::unresolved("vertex");
            };
            flip_out(dt.flip_k3_inverse_from_triangle(TriangleHandle::new(ka, kb, kc)))
        }
        Op::Repair { .. } => match dt.repair_delaunay_with_flips() {
            Ok(st) => {
                let mut o = Outcome::new(OutKind::Ok, "repaired", String::new());
                o.flips_performed = Some(st.flips_performed);
                o
            }
            Err(e) => Outcome::new(OutKind::Err, &variant_of(&format!("{e:?}")), trunc(e.to_string())),
        },
        Op::RepairAdv { seeds, .. } => {
            let cfg = match seeds {
                Some((s, p)) => DelaunayRepairHeuristicConfig { shuffle_seed: Some(*s), perturbation_seed: Some(*p) },
                None => DelaunayRepairHeuristicConfig::default(),
            };
            match dt.repair_delaunay_with_flips_advanced(cfg) {
                Ok(out) => {
                    let mut o = Outcome::new(OutKind::Ok, "repaired", String::new());
                    o.flips_performed = Some(out.stats.flips_performed);
                    o.used_heuristic = out.used_heuristic();
                    o
                }
                Err(e) => Outcome::new(OutKind::Err, &variant_of(&format!("{e:?}")), trunc(e.to_string())),
            }
        }
        Op::SetPolicy { which, value, .. } => {
            match which.as_str() {
                "validation" => dt.set_validation_policy(match value.as_str() {
                    "Never" => ValidationPolicy::Never,
                    "Always" => ValidationPolicy::Always,
                    "DebugOnly" => ValidationPolicy::DebugOnly,
                    _ => ValidationPolicy::OnSuspicion,
                }),
                "repair" => dt.set_delaunay_repair_policy(match value.as_str() {
                    "Never" => DelaunayRepairPolicy::Never,
                    "EveryInsertion" => DelaunayRepairPolicy::EveryInsertion,
                    v => DelaunayRepairPolicy::EveryN(
                        NonZeroUsize::new(v.trim_start_matches("EveryN").parse().unwrap_or(2).max(1)).expect("nz"),
                    ),
                }),
                "check" => dt.set_delaunay_check_policy(match value.as_str() {
                    "EndOnly" => DelaunayCheckPolicy::EndOnly,
                    v => DelaunayCheckPolicy::EveryN(
                        NonZeroUsize::new(v.trim_start_matches("EveryN").parse().unwrap_or(1).max(1)).expect("nz"),
                    ),
                }),
                "guarantee" => dt.set_topology_guarantee(tg_from(value)),
                _ => return Outcome::unresolved("policy"),
            }
            Outcome::new(OutKind::Ok, "policy", String::new())
        }
        Op::TouchMut { .. } => {
            let _ = dt.as_triangulation_mut();
            Outcome::new(OutKind::Ok, "touched", String::new())
        }
        _ => Outcome::unresolved("not a single-object mutator"),
    }
}

pub struct Built<K: SimKernel<D>, const D: usize> {
    pub dt: Option<Dt<K, D>>,
    pub out: Outcome,
    pub stats: Option<delaunay::core::delaunay_triangulation::ConstructionStatistics>,
}

/// Execute a constructor op. Must be called inside `with_plan` (wrap with `construct`).
fn construct_inner<K: SimKernel<D>, const D: usize>(op: &Op) -> Built<K, D> {
    match op {
        Op::Empty { tg, .. } => Built {
            dt: Some(Dt::<K, D>::with_empty_kernel_and_topology_guarantee(K::default(), tg_from(tg))),
            out: Outcome::new(OutKind::Ok, "empty", String::new()),
            stats: None,
        },
        Op::New { verts, ctor, tg, opts, .. } => {
            let vs: Option<Vec<Vertex<f64, U, D>>> = verts.iter().map(make_vertex::<D>).collect();
            let Some(vs) = vs else {
                return Built { dt: None, out: Outcome::unresolved("dimension"), stats: None };
            };
            let kernel = K::default();
            let tgv = tg_from(tg);
            match ctor.as_str() {
                "options_stats" => {
                    match Dt::<K, D>::with_topology_guarantee_and_options_with_construction_statistics(
                        &kernel,
                        &vs,
                        tgv,
                        opts_from(opts),
                    ) {
                        Ok((dt, st)) => Built { dt: Some(dt), out: Outcome::new(OutKind::Ok, "built", String::new()), stats: Some(st) },
                        Err(e) => Built {
                            dt: None,
                            out: Outcome::new(OutKind::Err, &variant_of(&format!("{:?}", e.error)), trunc(e.error.to_string())),
                            stats: Some(e.statistics),
                        },
                    }
                }
                "options" => match Dt::<K, D>::with_topology_guarantee_and_options(&kernel, &vs, tgv, opts_from(opts)) {
                    Ok(dt) => Built { dt: Some(dt), out: Outcome::new(OutKind::Ok, "built", String::new()), stats: None },
                    Err(e) => Built { dt: None, out: Outcome::new(OutKind::Err, &variant_of(&format!("{e:?}")), trunc(e.to_string())), stats: None },
                },
                "builder" => match delaunay::core::builder::DelaunayTriangulationBuilder::from_vertices(&vs)
                    .topology_guarantee(tgv)
                    .construction_options(opts_from(opts))
                    .build_with_kernel::<K, V>(&kernel)
                {
                    Ok(dt) => Built { dt: Some(dt), out: Outcome::new(OutKind::Ok, "built", String::new()), stats: None },
                    Err(e) => Built { dt: None, out: Outcome::new(OutKind::Err, &variant_of(&format!("{e:?}")), trunc(e.to_string())), stats: None },
                },
                c if c.starts_with("toroidal") => {
                    let Some((mode, hex)) = c.split_once(':') else {
                        return Built { dt: None, out: Outcome::unresolved("periods"), stats: None };
                    };
                    let per: Vec<f64> = hex.split(',').filter_map(|h| u64::from_str_radix(h, 16).ok()).map(f64::from_bits).collect();
                    let Ok(domain) = <[f64; D]>::try_from(per) else {
                        return Built { dt: None, out: Outcome::unresolved("periods"), stats: None };
                    };
                    let b = delaunay::core::builder::DelaunayTriangulationBuilder::from_vertices(&vs)
                        .topology_guarantee(tgv)
                        .construction_options(opts_from(opts));
                    let b = if mode == "toroidal_periodic" { b.toroidal_periodic(domain) } else { b.toroidal(domain) };
                    match b.build_with_kernel::<K, V>(&kernel) {
                        Ok(dt) => Built { dt: Some(dt), out: Outcome::new(OutKind::Ok, "built", String::new()), stats: None },
                        Err(e) => Built { dt: None, out: Outcome::new(OutKind::Err, &variant_of(&format!("{e:?}")), trunc(e.to_string())), stats: None },
                    }
                }
                "guarantee" => match Dt::<K, D>::with_topology_guarantee(&kernel, &vs, tgv) {
                    Ok(dt) => Built { dt: Some(dt), out: Outcome::new(OutKind::Ok, "built", String::new()), stats: None },
                    Err(e) => Built { dt: None, out: Outcome::new(OutKind::Err, &variant_of(&format!("{e:?}")), trunc(e.to_string())), stats: None },
                },
                _ => match Dt::<K, D>::with_kernel(&kernel, &vs) {
                    Ok(dt) => Built { dt: Some(dt), out: Outcome::new(OutKind::Ok, "built", String::new()), stats: None },
                    Err(e) => Built { dt: None, out: Outcome::new(OutKind::Err, &variant_of(&format!("{e:?}")), trunc(e.to_string())), stats: None },
                },
            }
        }
        _ => Built { dt: None, out: Outcome::unresolved("not a constructor"), stats: None },
    }
}

pub fn construct<K: SimKernel<D>, const D: usize>(plan: &Plan, op: &Op) -> Built<K, D> {
    let mut slot: Option<Built<K, D>> = None;
    let out = with_plan(plan, || {
        let b = construct_inner::<K, D>(op);
        let o = b.out.clone();
        slot = Some(b);
        o
    });
    match slot {
        Some(mut b) => {
            b.out = out;
            if let Some(st) = &b.stats {
                b.out.cstats = Some((
                    st.inserted,
                    st.skipped_duplicate,
                    st.skipped_degeneracy,
                    st.skip_samples.iter().map(|x| x.uuid.as_u128()).collect(),
                ));
            }
            b
        }
        None => Built { dt: None, out, stats: None },
    }
}

pub fn run_mutator<K: SimKernel<D>, const D: usize>(dt: &mut Dt<K, D>, plan: &Plan, op: &Op) -> Outcome {
    with_plan(plan, || apply_mutator(dt, op))
}

/// Serialise to JSON bytes (fault-free).
pub fn save<K: SimKernel<D>, const D: usize>(dt: &Dt<K, D>) -> Result<Vec<u8>, String> {
    serde_json::to_vec(dt).map_err(|e| e.to_string())
}

/// Load from JSON bytes through the generic `Tds` deserialiser, re-wrapped with a fresh kernel.
pub fn load<K: SimKernel<D>, const D: usize>(bytes: &[u8], tg: TopologyGuarantee) -> Result<Dt<K, D>, String> {
    let tds: Tds<f64, U, V, D> = serde_json::from_slice(bytes).map_err(|e| e.to_string())?;
    Ok(Dt::<K, D>::from_tds_with_topology_guarantee(tds, K::default(), tg))
}
