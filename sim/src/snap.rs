//! Plain-data snapshot ("fingerprint") of the observable state of a triangulation, extracted
//! through the public read API only. All oracles work on `Snap`, never on library internals,
//! and are therefore non-generic (compiled once) and independent of the library's validators.

use delaunay::core::delaunay_triangulation::DelaunayTriangulation;
use delaunay::geometry::kernel::Kernel;
use serde::{Deserialize, Serialize};
use slotmap::Key;
use std::collections::BTreeMap;

pub type U = i32;
pub type V = i32;
pub type Dt<K, const D: usize> = DelaunayTriangulation<K, U, V, D>;

#[derive(Clone, Debug, PartialEq, Serialize, Deserialize)]
pub struct SVertex {
    pub key: u64,
    pub uuid: u128,
    pub coords: Vec<f64>,
    pub data: Option<i32>,
    pub incident: Option<u64>,
}

#[derive(Clone, Debug, PartialEq, Serialize, Deserialize)]
pub struct SCell {
    pub key: u64,
    pub uuid: u128,
    /// vertex keys in stored order
    pub verts: Vec<u64>,
    /// neighbour slots in stored order (None = no neighbour buffer at all)
    pub nbrs: Option<Vec<Option<u64>>>,
    pub data: Option<i32>,
}

#[derive(Clone, Debug, PartialEq, Serialize, Deserialize)]
pub struct Snap {
    pub dim: usize,
    pub verts: Vec<SVertex>,
    pub cells: Vec<SCell>,
    pub n_verts_reported: usize,
    pub n_cells_reported: usize,
    pub dim_reported: i32,
    /// Debug renderings of the five policies / topology metadata
    pub policies: Vec<String>,
    pub generation: u64,
}

pub fn coords_bits_eq(a: &[f64], b: &[f64]) -> bool {
    a.len() == b.len() && a.iter().zip(b).all(|(x, y)| x.to_bits() == y.to_bits())
}

impl Snap {
    pub fn of<K, const D: usize>(dt: &Dt<K, D>) -> Self
    where
        K: Kernel<D, Scalar = f64>,
    {
        let verts = dt
            .vertices()
            .map(|(k, v)| SVertex {
                key: k.data().as_ffi(),
                uuid: v.uuid().as_u128(),
                coords: v.point().coords().to_vec(),
                data: v.data,
                incident: v.incident_cell.map(|c| c.data().as_ffi()),
            })
            .collect();
        let cells = dt
            .cells()
            .map(|(k, c)| SCell {
                key: k.data().as_ffi(),
                uuid: c.uuid().as_u128(),
                verts: c.vertices().iter().map(|v| v.data().as_ffi()).collect(),
                nbrs: c
                    .neighbors()
                    .map(|n| n.iter().map(|o| o.map(|ck| ck.data().as_ffi())).collect()),
                data: c.data,
            })
            .collect();
        Self {
            dim: D,
            verts,
            cells,
            n_verts_reported: dt.number_of_vertices(),
            n_cells_reported: dt.number_of_cells(),
            dim_reported: dt.dim(),
            policies: vec![
                format!("{:?}", dt.topology_guarantee()),
                format!("{:?}", dt.validation_policy()),
                format!("{:?}", dt.delaunay_repair_policy()),
                format!("{:?}", dt.delaunay_check_policy()),
                format!("{:?}", dt.global_topology()),
            ],
            generation: dt.tds().generation(),
        }
    }

    /// Equality of every observable aspect except the generation counter.
    /// Returns a description of the first difference.
    pub fn diff(&self, other: &Self) -> Option<String> {
        if self.policies != other.policies {
            return Some(format!("policies {:?} -> {:?}", self.policies, other.policies));
        }
        self.diff_complex(other)
    }

    /// Like `diff` but ignoring policies: only the stored complex (vertices, cells, neighbours).
    pub fn diff_complex(&self, other: &Self) -> Option<String> {
        if self.n_verts_reported != other.n_verts_reported
            || self.verts.len() != other.verts.len()
        {
            return Some(format!(
                "vertex count {} -> {}",
                self.n_verts_reported, other.n_verts_reported
            ));
        }
        if self.n_cells_reported != other.n_cells_reported
            || self.cells.len() != other.cells.len()
        {
            return Some(format!(
                "cell count {} -> {}",
                self.n_cells_reported, other.n_cells_reported
            ));
        }
        if self.dim_reported != other.dim_reported {
            return Some(format!("dim {} -> {}", self.dim_reported, other.dim_reported));
        }
        let mine: BTreeMap<u64, &SVertex> = self.verts.iter().map(|v| (v.key, v)).collect();
        for v in &other.verts {
            let Some(m) = mine.get(&v.key) else {
                return Some(format!("vertex key {:#x} appeared (uuid {:032x})", v.key, v.uuid));
            };
            if m.uuid != v.uuid {
                return Some(format!("vertex {:#x} uuid changed", v.key));
            }
            if !coords_bits_eq(&m.coords, &v.coords) {
                return Some(format!(
                    "vertex {:#x} coords {:?} -> {:?}",
                    v.key, m.coords, v.coords
                ));
            }
            if m.data != v.data {
                return Some(format!("vertex {:#x} data {:?} -> {:?}", v.key, m.data, v.data));
            }
            if m.incident != v.incident {
                return Some(format!(
                    "vertex {:#x} incident_cell {:?} -> {:?}",
                    v.key, m.incident, v.incident
                ));
            }
        }
        let mine: BTreeMap<u64, &SCell> = self.cells.iter().map(|c| (c.key, c)).collect();
        for c in &other.cells {
            let Some(m) = mine.get(&c.key) else {
                return Some(format!("cell key {:#x} appeared", c.key));
            };
            if m.uuid != c.uuid {
                return Some(format!("cell {:#x} uuid changed", c.key));
            }
            if m.verts != c.verts {
                return Some(format!(
                    "cell {:#x} vertex slots {:x?} -> {:x?}",
                    c.key, m.verts, c.verts
                ));
            }
            if m.nbrs != c.nbrs {
                return Some(format!(
                    "cell {:#x} neighbour slots {:x?} -> {:x?}",
                    c.key, m.nbrs, c.nbrs
                ));
            }
            if m.data != c.data {
                return Some(format!("cell {:#x} data changed", c.key));
            }
        }
        None
    }

    pub fn vertex_by_key(&self, key: u64) -> Option<&SVertex> {
        self.verts.iter().find(|v| v.key == key)
    }

    pub fn key_to_uuid(&self) -> BTreeMap<u64, u128> {
        self.verts.iter().map(|v| (v.key, v.uuid)).collect()
    }

    pub fn key_to_coords(&self) -> BTreeMap<u64, &[f64]> {
        self.verts.iter().map(|v| (v.key, v.coords.as_slice())).collect()
    }

    /// Canonical (key-independent) form: the vertex set as (uuid, coordinate bits, data) and the
    /// cell set as sorted vertex-uuid tuples, plus the neighbour relation over those tuples.
    pub fn canonical(&self) -> Canon {
        let k2u = self.key_to_uuid();
        let mut verts: Vec<(u128, Vec<u64>, Option<i32>)> = self
            .verts
            .iter()
            .map(|v| (v.uuid, v.coords.iter().map(|c| c.to_bits()).collect(), v.data))
            .collect();
        verts.sort();
        let cell_tuple = |c: &SCell| -> Vec<u128> {
            let mut t: Vec<u128> =
                c.verts.iter().map(|k| k2u.get(k).copied().unwrap_or(u128::MAX)).collect();
            t.sort_unstable();
            t
        };
        let by_key: BTreeMap<u64, Vec<u128>> =
            self.cells.iter().map(|c| (c.key, cell_tuple(c))).collect();
        let mut cells: Vec<Vec<u128>> = by_key.values().cloned().collect();
        cells.sort();
        let mut adj: Vec<(Vec<u128>, Vec<u128>)> = Vec::new();
        for c in &self.cells {
            if let Some(n) = &c.nbrs {
                for nk in n.iter().flatten() {
                    if let Some(t) = by_key.get(nk) {
                        adj.push((by_key[&c.key].clone(), t.clone()));
                    }
                }
            }
        }
        adj.sort();
        Canon { verts, cells, adj }
    }

    /// Stable 64-bit hash of the full state (for event logs).
    pub fn hash64(&self) -> u64 {
        let mut h = crate::rng::LogHash::default();
        for p in &self.policies {
            h.str(p);
        }
        h.u64(self.n_verts_reported as u64);
        h.u64(self.n_cells_reported as u64);
        for v in &self.verts {
            h.u64(v.key);
            h.u128(v.uuid);
            for c in &v.coords {
                h.u64(c.to_bits());
            }
            h.u64(v.data.map_or(u64::MAX, |d| d as u64));
            h.u64(v.incident.unwrap_or(u64::MAX));
        }
        for c in &self.cells {
            h.u64(c.key);
            h.u128(c.uuid);
            for v in &c.verts {
                h.u64(*v);
            }
            if let Some(n) = &c.nbrs {
                for o in n {
                    h.u64(o.unwrap_or(u64::MAX));
                }
            }
            h.u64(c.data.map_or(u64::MAX, |d| d as u64));
        }
        h.0
    }
}

#[derive(Clone, Debug, PartialEq, Eq)]
pub struct Canon {
    pub verts: Vec<(u128, Vec<u64>, Option<i32>)>,
    pub cells: Vec<Vec<u128>>,
    pub adj: Vec<(Vec<u128>, Vec<u128>)>,
}

impl Canon {
    pub fn hash64(&self) -> u64 {
        let mut h = crate::rng::LogHash::default();
        for (u, c, d) in &self.verts {
            h.u128(*u);
            for b in c {
                h.u64(*b);
            }
            h.u64(d.map_or(u64::MAX, |x| x as u64));
        }
        for c in &self.cells {
            for u in c {
                h.u128(*u);
            }
            h.u64(0xCE11);
        }
        h.u64(self.adj.len() as u64);
        h.0
    }
}
