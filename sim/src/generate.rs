//! Seeded generation: coordinate families, per-run configuration and operation choice.
//! Every draw comes from a sub-stream keyed by (run seed, purpose, op index).

use crate::ops::{CRef, Hex128, Op, Opts, VRef, VSpec};
use crate::rng::Rng;
use crate::snap::Snap;
use std::collections::BTreeSet;

pub const FAMILIES: &[&str] = &["grid", "dyadic", "jitter", "cosph", "wide", "tiny", "cluster", "extreme"];
pub const GUARANTEES: &[&str] = &["Pseudomanifold", "PLManifold", "PLManifoldStrict"];

pub fn grid_extent(dim: usize) -> i64 {
    match dim {
        2 => 8,
        3 => 4,
        4 => 3,
        _ => 2,
    }
}

/// Candidate point pool of a run.
/// Periods of the toroidal domain of a run (a function of the run seed so that the point pool
/// and the constructor agree).
pub fn torus_periods(seed: u64, dim: usize) -> Vec<f64> {
    let mut r = Rng::sub(seed, "torus-periods", 0);
    let vals = [1.0, 1.0, 2.0, 0.75, 3.5, 10.0, 1e-3, 1024.0, 0.1, 7.0];
    if r.chance(1, 2) {
        let l = *r.pick(&vals);
        vec![l; dim]
    } else {
        (0..dim).map(|_| *r.pick(&vals)).collect()
    }
}

pub fn make_pool(family: &str, dim: usize, seed: u64, n: usize) -> Vec<Vec<f64>> {
    let mut rng = Rng::sub(seed, "pool", 0);
    let mut seen: BTreeSet<Vec<u64>> = BTreeSet::new();
    let mut out: Vec<Vec<f64>> = Vec::new();
    let g = grid_extent(dim);
    let mut push = |p: Vec<f64>, out: &mut Vec<Vec<f64>>| {
        let key: Vec<u64> = p.iter().map(|c| c.to_bits()).collect();
        if seen.insert(key) {
            out.push(p);
        }
    };
    let mut guard = 0;
    while out.len() < n && guard < n * 50 {
        guard += 1;
        let p: Vec<f64> = match family {
            "grid" => (0..dim).map(|_| rng.range_i64(0, g) as f64).collect(),
            "jitter" => (0..dim).map(|_| (rng.range_i64(0, g) * 8 + rng.range_i64(-1, 1)) as f64).collect(),
            "cosph" => {
                // integer points on the sphere of radius 5 around (5,5,..) in the first two axes,
                // plus the occasional interior integer point
                if rng.chance(3, 4) {
                    let pairs: [(i64, i64); 12] = [
                        (3, 4), (-3, 4), (3, -4), (-3, -4), (4, 3), (-4, 3), (4, -3), (-4, -3), (5, 0), (-5, 0), (0, 5), (0, -5),
                    ];
                    let (a, b) = *rng.pick(&pairs);
                    let i = rng.usize_below(dim);
                    let mut j = rng.usize_below(dim);
                    if j == i {
                        j = (i + 1) % dim;
                    }
                    let mut p = vec![5.0; dim];
                    p[i] += a as f64;
                    p[j] += b as f64;
                    p
                } else {
                    (0..dim).map(|_| rng.range_i64(2, 8) as f64).collect()
                }
            }
            "extreme" => {
                let vals = [
                    0.0, -0.0, 1.0, -1.0, 2.0f64.powi(500), -(2.0f64.powi(500)), 2.0f64.powi(-500), 5e-324, -5e-324, f64::MAX / 4.0, -f64::MAX / 4.0,
                    1e300, 1e-300, 3.0, 1e154, 1e155, 0.5,
                ];
                (0..dim).map(|_| *rng.pick(&vals) * if rng.chance(1, 3) { rng.range_i64(1, 3) as f64 } else { 1.0 }).collect()
            }
            "torus" => {
                let per = torus_periods(seed, dim);
                (0..dim)
                    .map(|ax| {
                        let l = per[ax];
                        let base = l * (rng.range_i64(0, 63) as f64) / 64.0;
                        match rng.below(100) {
                            0..=47 => base,
                            48..=59 => base + l * rng.range_i64(-3, 3) as f64,
                            60..=67 => l * rng.range_i64(-2, 2) as f64,
                            68..=75 => base + l * 2.0f64.powi(*rng.pick(&[20, 40, 52, 60])) * if rng.chance(1, 2) { 1.0 } else { -1.0 },
                            76..=81 => *rng.pick(&[-5e-324, -1e-18 * l, -0.0, -(2.0f64.powi(-60)) * l, -1e-30]),
                            82..=87 => *rng.pick(&[l * (1.0 - 2.0f64.powi(-53)), f64::from_bits(l.to_bits() - 1), l - 1e-12 * l]),
                            _ => l * (rng.range_i64(0, (1 << 20) - 1) as f64) / (1u64 << 20) as f64,
                        }
                    })
                    .collect()
            }
            // degenerate families shifted far along axis 0: the curve orderings quantise with one
            // global (min, max), so distinct points share a Hilbert / Morton cell (ties) while
            // staying exactly cospherical / on a lattice
            "offcosph" | "offgrid" => {
                let inner = if family == "offcosph" { "cosph" } else { "grid" };
                let mut p = make_pool(inner, dim, seed ^ (0x0ff5e7 + guard as u64), 1).pop().unwrap_or_else(|| vec![0.0; dim]);
                p[0] += (1u64 << 40) as f64;
                p
            }
            // the textbook configuration on which the visibility walk cycles once the long
            // diagonals have been flipped in: an outer simplex, a smaller twisted copy inside it
            // (first 2(D+1) pool points, always part of the initial vertex set), then filler
            "pinwheel" if dim == 2 && Rng::sub(seed, "pinwheel-variant", 0).chance(1, 2) => {
                // a six-point configuration on which this library's first-outside-facet walk is
                // known to go round in a circle once two diagonals are flipped, under a random
                // affine map (orientation tests, hence the walk, are affine invariant; which
                // triangulation is Delaunay is not, so the flips needed differ from run to run)
                let k = out.len();
                let base: [(f64, f64); 6] = [(0.0, 6.0), (12.0, 12.0), (12.0, 0.0), (11.0, 4.0), (4.0, 5.0), (11.0, 1.0)];
                let mut ar = Rng::sub(seed, "pinwheel-affine", 0);
                let (mut a, mut b, mut c, mut d2): (f64, f64, f64, f64) = (1.0, 0.0, 0.0, 1.0);
                for _ in 0..8 {
                    a = *ar.pick(&[1.0, 1.0, 2.0, -1.0]);
                    b = *ar.pick(&[0.0, 0.0, 1.0, -1.0, 0.5]);
                    c = *ar.pick(&[0.0, 0.0, 1.0, -1.0, 0.5]);
                    d2 = *ar.pick(&[1.0, 1.0, 2.0, -1.0]);
                    if (a * d2 - b * c).abs() >= 0.5 {
                        break;
                    }
                    a = 1.0;
                    b = 0.0;
                    c = 0.0;
                    d2 = 1.0;
                }
                let (tx, ty) = (ar.range_i64(-8, 8) as f64, ar.range_i64(-8, 8) as f64);
                if k < 6 {
                    let (x, y) = base[k];
                    vec![a * x + b * y + tx, c * x + d2 * y + ty]
                } else {
                    (0..dim).map(|_| rng.range_i64(-40, 200) as f64 / 8.0).collect()
                }
            }
            "pinwheel" => {
                let k = out.len();
                let outer = |i: usize, r: &mut Rng| -> Vec<f64> {
                    let mut p = vec![0.0; dim];
                    if i > 0 {
                        p[i - 1] = 24.0;
                    } else {
                        for c in p.iter_mut() {
                            *c = -6.0;
                        }
                    }
                    let _ = r;
                    p
                };
                if k <= dim {
                    let mut p = outer(k, &mut rng);
                    // a little asymmetry so that no two runs share the same outer simplex
                    let ax = rng.usize_below(dim);
                    p[ax] += rng.range_i64(-2, 2) as f64;
                    p
                } else if k <= 2 * dim + 1 {
                    let i = k - dim - 1;
                    let os: Vec<Vec<f64>> = (0..=dim).map(|j| out[j].clone()).collect();
                    let cen: Vec<f64> = (0..dim).map(|a| os.iter().map(|o| o[a]).sum::<f64>() / (dim as f64 + 1.0)).collect();
                    let a = &os[i];
                    let b = &os[(i + 1) % (dim + 1)];
                    // twist strengths from mild to strong (each inner vertex is pulled from the
                    // centroid towards "its" outer vertex by wa and towards the next one by wb)
                    let wa = *rng.pick(&[0.15, 0.3, 0.45, 0.6, 0.75, 0.85]);
                    let wb = *rng.pick(&[0.1, 0.25, 0.4, 0.55, 0.7]) * (1.0 - wa);
                    (0..dim).map(|x| ((cen[x] + wa * (a[x] - cen[x]) + wb * (b[x] - cen[x])) * 8.0).round() / 8.0).collect()
                } else {
                    (0..dim).map(|_| rng.range_i64(-40, 200) as f64 / 8.0).collect()
                }
            }
            // general position like "dyadic", but inside a box of side 2^-8: determinants are far
            // below 1 in absolute terms while every instance stays well conditioned
            "small" => (0..dim).map(|_| rng.range_i64(0, 1023) as f64 / 1024.0 / 256.0).collect(),
            "wide" => (0..dim).map(|_| (rng.range_i64(0, 1023) as f64) * (1u64 << 30) as f64).collect(),
            "tiny" => (0..dim).map(|_| (rng.range_i64(0, 1023) as f64) / (1u64 << 30) as f64).collect(),
            "cluster" => {
                if out.is_empty() || rng.chance(1, 2) {
                    (0..dim).map(|_| rng.range_i64(0, 1023) as f64 / 1024.0).collect()
                } else {
                    let base = out[rng.usize_below(out.len())].clone();
                    let offs = [1e-11, 5e-11, 1e-10, 2e-10, 1e-9, 1e-7];
                    let mut p = base;
                    let i = rng.usize_below(dim);
                    let o = *rng.pick(&offs);
                    p[i] += if rng.chance(1, 2) { o } else { -o };
                    p
                }
            }
            // "dyadic": general position with overwhelming probability, exactly representable
            _ => (0..dim).map(|_| rng.range_i64(0, 1023) as f64 / 1024.0).collect(),
        };
        push(p, &mut out);
    }
    out
}

pub fn pick_dim(rng: &mut Rng) -> usize {
    [2usize, 3, 4, 5][rng.weighted(&[38, 36, 17, 9])]
}

pub fn max_vertices(dim: usize, thorough: bool) -> usize {
    match (dim, thorough) {
        (2, false) => 12,
        (2, true) => 20,
        (3, false) => 9,
        (3, true) => 14,
        (4, false) => 8,
        (4, true) => 10,
        (_, false) => 8,
        (_, true) => 9,
    }
}

/// Operation-kind weights for mutating histories (swarm style: a random subset is enabled).
#[derive(Clone, Debug)]
pub struct MutWeights {
    pub insert: u32,
    pub insert_stats: u32,
    pub remove: u32,
    pub k1_insert: u32,
    pub k1_remove: u32,
    pub k2: u32,
    pub k3: u32,
    pub k2_inv: u32,
    pub k3_inv: u32,
    pub repair: u32,
    pub repair_adv: u32,
    pub policy: u32,
    pub touch: u32,
}

impl MutWeights {
    pub fn swarm(rng: &mut Rng, dim: usize) -> Self {
        let mut w = Self {
            insert: 30,
            insert_stats: 12,
            remove: 14,
            k1_insert: 6,
            k1_remove: 5,
            k2: 10,
            k3: if dim >= 3 { 6 } else { 1 },
            k2_inv: if dim >= 3 { 5 } else { 1 },
            k3_inv: if dim >= 4 { 4 } else { 1 },
            repair: 5,
            repair_adv: 3,
            policy: 4,
            touch: 1,
        };
        // disable a random subset of the optional kinds
        let mut off = |x: &mut u32, rng: &mut Rng| {
            if rng.chance(1, 3) {
                *x = 0;
            }
        };
        off(&mut w.remove, rng);
        off(&mut w.k1_insert, rng);
        off(&mut w.k1_remove, rng);
        off(&mut w.k2, rng);
        off(&mut w.k3, rng);
        off(&mut w.k2_inv, rng);
        off(&mut w.k3_inv, rng);
        off(&mut w.repair, rng);
        off(&mut w.repair_adv, rng);
        off(&mut w.policy, rng);
        if rng.chance(1, 4) {
            w.insert_stats = 0;
        }
        w
    }
    fn as_vec(&self) -> Vec<u32> {
        vec![
            self.insert, self.insert_stats, self.remove, self.k1_insert, self.k1_remove, self.k2, self.k3,
            self.k2_inv, self.k3_inv, self.repair, self.repair_adv, self.policy, self.touch,
        ]
    }
}

pub struct Gen {
    pub seed: u64,
    pub dim: usize,
    pub family: String,
    pub pool: Vec<Vec<f64>>,
    pub weights: MutWeights,
    /// raw keys of cells / vertices that were live at some earlier step (stale-handle pool)
    pub stale_cells: Vec<u64>,
    pub stale_verts: Vec<u64>,
    /// vertices that were present once and are gone (for "former vertex" probes)
    pub former: Vec<VSpec>,
    pub max_vertices: usize,
    /// per-mille probability that an inserted vertex carries a non-finite coordinate
    pub nonfinite_permille: u64,
    /// per-mille probability that an Edit-API handle is chosen among the combinatorially
    /// plausible ones (face with the incident-cell count the move requires)
    pub legal_bias_permille: u64,
    /// per-mille probability that a vertex handed to the library carries a preset `incident_cell`
    /// (live, stale or fabricated cell key), like a vertex value copied out of a triangulation
    pub preset_incident_permille: u64,
    /// per-mille probability that a k=2 flip is aimed at an interior facet whose flip keeps the
    /// complex embedded (the two apexes see each other through the facet): a random walk on the
    /// flip graph of the point set, i.e. valid but deliberately non-Delaunay triangulations
    pub embedded_k2_permille: u64,
    /// per-mille probability that a batch input additionally carries 9..16 exact or within-tolerance
    /// copies (fresh UUIDs) of its own vertices: many skips in one construction
    pub dup_heavy_permille: u64,
}

/// Interior facets whose k=2 flip keeps the complex embedded: the opposite apex b lies on the same
/// strict side as f_j of the hyperplane through a and the other facet vertices, for every j (the
/// segment ab crosses the interior of the facet). Decided exactly; undecidable ones are left out.
pub fn embedded_k2_candidates(snap: &Snap, d: usize) -> Vec<(u64, u8)> {
    let coords = snap.key_to_coords();
    let mut cands: Vec<(u64, u8)> = Vec::new();
    for c in &snap.cells {
        let Some(nb) = &c.nbrs else { continue };
        for (fi, n) in nb.iter().enumerate() {
            let Some(nk) = n else { continue };
            if *nk < c.key {
                continue;
            }
            let Some(other) = snap.cells.iter().find(|x| x.key == *nk) else { continue };
            let a = c.verts[fi];
            let Some(b) = other.verts.iter().copied().find(|v| !c.verts.contains(v)) else { continue };
            let facet: Vec<u64> = c.verts.iter().copied().filter(|v| *v != a).collect();
            if facet.len() != d {
                continue;
            }
            // replacement cells: {a, b} + facet minus one vertex, in a fixed slot order
            let mut signs: Vec<crate::exact::Sign> = Vec::new();
            let mut ok = true;
            for j in 0..d {
                let mut pts: Vec<&[f64]> = Vec::with_capacity(d + 1);
                for (i, f) in facet.iter().enumerate() {
                    let key = if i == j { b } else { *f };
                    match coords.get(&key) {
                        Some(p) => pts.push(&p[..]),
                        None => ok = false,
                    }
                }
                match coords.get(&a) {
                    Some(p) => pts.push(&p[..]),
                    None => ok = false,
                }
                if !ok {
                    break;
                }
                signs.push(crate::exact::orient(&pts));
            }
            if !ok || signs.is_empty() {
                continue;
            }
            // b lies on the same strict side as f_j of the hyperplane through a and the other
            // facet vertices, for every j: the segment ab crosses the interior of the facet
            let mut refpts: Vec<&[f64]> = Vec::with_capacity(d + 1);
            for f in &facet {
                if let Some(p) = coords.get(f) {
                    refpts.push(&p[..]);
                }
            }
            if let Some(p) = coords.get(&a) {
                refpts.push(&p[..]);
            }
            if refpts.len() != d + 1 {
                continue;
            }
            let reference = crate::exact::orient(&refpts);
            let first = reference.sign;
            if first != 0 && reference.decidable && signs.iter().all(|s| s.decidable && s.sign == first) {
                cands.push((c.key, fi as u8));
            }
        }
    }
    cands
}

fn present(snap: &Snap, p: &[f64]) -> bool {
    snap.verts.iter().any(|v| crate::snap::coords_bits_eq(&v.coords, p))
}

impl Gen {
    pub fn new(seed: u64, dim: usize, family: &str, thorough: bool) -> Self {
        let mut rng = Rng::sub(seed, "weights", 0);
        let maxv = max_vertices(dim, thorough);
        Self {
            seed,
            dim,
            family: family.to_string(),
            pool: make_pool(family, dim, seed, maxv * 3 + 8),
            weights: MutWeights::swarm(&mut rng, dim),
            stale_cells: Vec::new(),
            stale_verts: Vec::new(),
            former: Vec::new(),
            max_vertices: maxv,
            nonfinite_permille: 0,
            legal_bias_permille: 0,
            preset_incident_permille: 0,
            embedded_k2_permille: 0,
            dup_heavy_permille: 0,
        }
    }

    /// A cell key of any provenance: live in `snap`, stale (seen earlier), or fabricated.
    fn some_cell_key(&self, rng: &mut Rng, snap: &Snap) -> u64 {
        let r = rng.below(100);
        if r < 45 && !snap.cells.is_empty() {
            snap.cells[rng.usize_below(snap.cells.len())].key
        } else if r < 85 && !self.stale_cells.is_empty() {
            *rng.pick(&self.stale_cells)
        } else {
            // low slot indices with versions 1..3: collides with live or future cells now and then
            (rng.below(3) + 1) << 32 | (1 + rng.below(24))
        }
    }

    /// Faces (sorted vertex-key subsets of size `s`) having exactly `want` incident cells.
    fn faces_with_star(snap: &Snap, s: usize, want: usize) -> Vec<Vec<u64>> {
        let mut count: std::collections::BTreeMap<Vec<u64>, usize> = std::collections::BTreeMap::new();
        for c in &snap.cells {
            let n = c.verts.len();
            if s > n || n > 16 {
                continue;
            }
            for mask in 0u32..(1u32 << n) {
                if mask.count_ones() as usize != s {
                    continue;
                }
                let mut f: Vec<u64> = (0..n).filter(|i| mask >> i & 1 == 1).map(|i| c.verts[i]).collect();
                f.sort_unstable();
                *count.entry(f).or_insert(0) += 1;
            }
        }
        count.into_iter().filter(|(_, c)| *c == want).map(|(f, _)| f).collect()
    }

    /// A combinatorially plausible Edit-API move of the given generator slot, if any.
    /// A k=2 flip across an interior facet whose flip keeps the complex embedded (see
    /// `embedded_k2_candidates`).
    fn embedded_k2(&self, rng: &mut Rng, snap: &Snap, obj: usize) -> Option<Op> {
        let cands = embedded_k2_candidates(snap, self.dim);
        if cands.is_empty() {
            return None;
        }
        let (ck, fi) = *rng.pick(&cands);
        let k2u = snap.key_to_uuid();
        let cell = snap.cells.iter().find(|c| c.key == ck)?;
        let us: Option<Vec<Hex128>> = cell.verts.iter().map(|k| k2u.get(k).map(|u| Hex128(*u))).collect();
        Some(Op::FlipK2 { obj, cell: CRef::Verts(us?), facet: fi })
    }

    fn plausible(&self, rng: &mut Rng, snap: &Snap, obj: usize, slot: usize) -> Option<Op> {
        let d = self.dim;
        let k2u = snap.key_to_uuid();
        let vr = |k: &u64| k2u.get(k).map(|u| VRef::Uuid(Hex128(*u)));
        match slot {
            4 => {
                let f = Self::faces_with_star(snap, 1, d + 1);
                if f.is_empty() {
                    return None;
                }
                Some(Op::FlipK1Remove { obj, v: vr(&rng.pick(&f)[0])? })
            }
            6 if d >= 3 => {
                let f = Self::faces_with_star(snap, d - 1, 3);
                if f.is_empty() {
                    return None;
                }
                let ridge = rng.pick(&f).clone();
                let cells: Vec<&crate::snap::SCell> = snap.cells.iter().filter(|c| ridge.iter().all(|v| c.verts.contains(v))).collect();
                let c = *rng.pick(&cells);
                let omit: Vec<u8> = (0..c.verts.len()).filter(|i| !ridge.contains(&c.verts[*i])).map(|i| i as u8).collect();
                if omit.len() != 2 {
                    return None;
                }
                let us: Option<Vec<Hex128>> = c.verts.iter().map(|k| k2u.get(k).map(|u| Hex128(*u))).collect();
                Some(Op::FlipK3 { obj, cell: CRef::Verts(us?), omit_a: omit[0], omit_b: omit[1] })
            }
            7 if d >= 3 => {
                let f = Self::faces_with_star(snap, 2, d);
                if f.is_empty() {
                    return None;
                }
                let e = rng.pick(&f);
                Some(Op::FlipK2Inv { obj, a: vr(&e[0])?, b: vr(&e[1])? })
            }
            8 if d >= 4 => {
                let f = Self::faces_with_star(snap, 3, d - 1);
                if f.is_empty() {
                    return None;
                }
                let t = rng.pick(&f);
                Some(Op::FlipK3Inv { obj, a: vr(&t[0])?, b: vr(&t[1])?, c: vr(&t[2])? })
            }
            _ => None,
        }
    }

    /// Track handles of the current state so that later steps can use them as stale handles.
    pub fn observe(&mut self, snap: &Snap) {
        for c in &snap.cells {
            if self.stale_cells.len() < 64 && !self.stale_cells.contains(&c.key) {
                self.stale_cells.push(c.key);
            }
        }
        for v in &snap.verts {
            if self.stale_verts.len() < 64 && !self.stale_verts.contains(&v.key) {
                self.stale_verts.push(v.key);
            }
        }
    }

    pub fn fresh_vertex(&self, rng: &mut Rng, snap: &Snap) -> VSpec {
        // a pool point not present; else a random pool point (duplicate)
        let start = rng.usize_below(self.pool.len());
        let mut coords = self.pool[start].clone();
        for i in 0..self.pool.len() {
            let p = &self.pool[(start + i) % self.pool.len()];
            if !present(snap, p) {
                coords = p.clone();
                break;
            }
        }
        let data = if rng.chance(1, 2) { Some(rng.range_i64(-1000, 1000) as i32) } else { None };
        VSpec::new(&coords, rng.uuid128(), data)
    }

    pub fn initial_vertices(&self, rng: &mut Rng, n: usize) -> Vec<VSpec> {
        let mut idx: Vec<usize> = (0..self.pool.len()).collect();
        rng.shuffle(&mut idx);
        if self.family == "pinwheel" {
            // the structured prefix of the pool comes first
            let k = (2 * (self.dim + 1)).min(self.pool.len());
            idx.retain(|i| *i >= k);
            let mut pre: Vec<usize> = (0..k).collect();
            pre.extend(idx);
            idx = pre;
        }
        let mut out: Vec<VSpec> = idx
            .into_iter()
            .take(n)
            .map(|i| {
                let data = if rng.chance(1, 2) { Some(rng.range_i64(-1000, 1000) as i32) } else { None };
                VSpec::new(&self.pool[i], rng.uuid128(), data)
            })
            .collect();
        if self.dup_heavy_permille > 0 && !out.is_empty() {
            let mut r3 = Rng::sub(self.seed, "dup-heavy", 0);
            if r3.below(1000) < self.dup_heavy_permille {
                let base = out.len();
                for _ in 0..(9 + r3.usize_below(8)) {
                    let src = out[r3.usize_below(base)].clone();
                    let mut c = src.coords();
                    if r3.chance(1, 3) {
                        let ax = r3.usize_below(c.len());
                        c[ax] += if r3.chance(1, 2) { 5e-11 } else { -5e-11 };
                    }
                    let data = if r3.chance(1, 2) { Some(r3.range_i64(-1000, 1000) as i32) } else { None };
                    let at = r3.usize_below(out.len() + 1);
                    out.insert(at, VSpec::new(&c, r3.uuid128(), data));
                }
            }
        }
        // "rebuilt from vertices copied out of another triangulation": every input carries a cell key
        if self.preset_incident_permille > 0 {
            let mut r2 = Rng::sub(self.seed, "preset-incident", 0);
            if r2.below(1000) < self.preset_incident_permille {
                for v in &mut out {
                    v.incident = Some((r2.below(3) + 1) << 32 | (1 + r2.below(24)));
                }
            }
        }
        out
    }

    fn live_cell(&self, rng: &mut Rng, snap: &Snap) -> Option<CRef> {
        if snap.cells.is_empty() {
            return None;
        }
        let c = &snap.cells[rng.usize_below(snap.cells.len())];
        let k2u = snap.key_to_uuid();
        let us: Option<Vec<Hex128>> = c.verts.iter().map(|k| k2u.get(k).map(|u| Hex128(*u))).collect();
        us.map(CRef::Verts)
    }

    fn cell_handle(&self, rng: &mut Rng, snap: &Snap) -> CRef {
        // 88% live, 8% stale pool, 4% fabricated
        let r = rng.below(100);
        if r < 88
            && let Some(c) = self.live_cell(rng, snap)
        {
            return c;
        }
        if r < 96 && !self.stale_cells.is_empty() {
            return CRef::Raw(*rng.pick(&self.stale_cells));
        }
        CRef::Raw(rng.next_u64() & 0x0000_00ff_0000_00ff | 0x0000_0001_0000_0000)
    }

    fn vertex_handle(&self, rng: &mut Rng, snap: &Snap) -> VRef {
        let r = rng.below(100);
        if r < 88 && !snap.verts.is_empty() {
            return VRef::Uuid(Hex128(snap.verts[rng.usize_below(snap.verts.len())].uuid));
        }
        if r < 96 && !self.stale_verts.is_empty() {
            return VRef::Raw(*rng.pick(&self.stale_verts));
        }
        VRef::Raw(rng.next_u64() & 0x0000_00ff_0000_00ff | 0x0000_0001_0000_0000)
    }

    /// k vertex handles taken from one live cell (so that they span a real face), or arbitrary handles.
    fn face_handles(&self, rng: &mut Rng, snap: &Snap, k: usize) -> Vec<VRef> {
        if !snap.cells.is_empty() && rng.chance(9, 10) {
            let c = &snap.cells[rng.usize_below(snap.cells.len())];
            let k2u = snap.key_to_uuid();
            let mut vs: Vec<u64> = c.verts.clone();
            rng.shuffle(&mut vs);
            let out: Vec<VRef> = vs.iter().take(k).filter_map(|key| k2u.get(key).map(|u| VRef::Uuid(Hex128(*u)))).collect();
            if out.len() == k {
                return out;
            }
        }
        (0..k).map(|_| self.vertex_handle(rng, snap)).collect()
    }

    fn facet_index(&self, rng: &mut Rng) -> u8 {
        if rng.chance(1, 25) {
            rng.below(256) as u8
        } else {
            rng.below(self.dim as u64 + 1) as u8
        }
    }

    /// Next mutating operation for object `obj` whose current state is `snap`.
    pub fn next_mutator(&mut self, idx: u64, snap: &Snap, obj: usize) -> Op {
        let mut rng = Rng::sub(self.seed, "op", idx);
        let mut w = self.weights.as_vec();
        // keep sizes bounded: at the cap, inserts become rare and removals likelier
        if snap.verts.len() >= self.max_vertices {
            w[0] /= 6;
            w[1] /= 6;
            w[3] = 0;
            w[2] = w[2].max(10);
        }
        if snap.cells.is_empty() {
            // nothing to flip/repair: bias to insertion
            for i in [3usize, 4, 5, 6, 7, 8] {
                w[i] /= 8;
            }
            w[0] = w[0].max(20);
        }
        let slot = rng.weighted(&w);
        if self.legal_bias_permille > 0
            && matches!(slot, 4 | 6 | 7 | 8)
            && rng.below(1000) < self.legal_bias_permille
            && let Some(op) = self.plausible(&mut rng, snap, obj, slot)
        {
            return op;
        }
        match slot {
            0 | 1 => {
                let stats = rng.weighted(&w[0..2]) == 1;
                let r = rng.below(100);
                let v = if r < 8 && !snap.verts.is_empty() {
                    // exact duplicate coordinates, fresh uuid
                    let e = &snap.verts[rng.usize_below(snap.verts.len())];
                    VSpec::new(&e.coords, rng.uuid128(), Some(7))
                } else if r < 11 && !snap.verts.is_empty() {
                    // reused uuid at a fresh position
                    let e = &snap.verts[rng.usize_below(snap.verts.len())];
                    let mut v = self.fresh_vertex(&mut rng, snap);
                    v.uuid = Hex128(e.uuid);
                    v
                } else if r < 14 && !self.former.is_empty() {
                    // re-insert a former vertex (same coords, same uuid)
                    rng.pick(&self.former).clone()
                } else {
                    self.fresh_vertex(&mut rng, snap)
                };
                let mut v = v;
                if rng.below(1000) < self.nonfinite_permille {
                    let i = rng.usize_below(self.dim);
                    v.bits[i] = (*rng.pick(&[f64::NAN, f64::INFINITY, f64::NEG_INFINITY])).to_bits();
                    v.approx[i] = serde_json::Value::String(format!("{:?}", f64::from_bits(v.bits[i])));
                }
                if self.preset_incident_permille > 0 && rng.below(1000) < self.preset_incident_permille {
                    v.incident = Some(self.some_cell_key(&mut rng, snap));
                }
                Op::Insert { obj, v, stats }
            }
            2 => {
                if !snap.verts.is_empty() && rng.chance(19, 20) {
                    let e = &snap.verts[rng.usize_below(snap.verts.len())];
                    Op::Remove { obj, uuid: Hex128(e.uuid) }
                } else {
                    Op::Remove { obj, uuid: Hex128(rng.uuid128()) }
                }
            }
            3 => {
                let cell = self.cell_handle(&mut rng, snap);
                let mut v = self.fresh_vertex(&mut rng, snap);
                // half of the time aim at the (floating-point) centroid of a live cell
                if let CRef::Verts(us) = &cell
                    && rng.chance(1, 2)
                {
                    let mut c = vec![0.0; self.dim];
                    let mut n = 0.0;
                    for u in us {
                        if let Some(sv) = snap.verts.iter().find(|x| x.uuid == u.0) {
                            for (i, x) in sv.coords.iter().enumerate() {
                                c[i] += x;
                            }
                            n += 1.0;
                        }
                    }
                    if n > 0.0 {
                        for x in &mut c {
                            *x /= n;
                        }
                        v = VSpec::new(&c, v.uuid.0, v.data);
                    }
                }
                if self.preset_incident_permille > 0 && rng.below(1000) < self.preset_incident_permille {
                    v.incident = Some(self.some_cell_key(&mut rng, snap));
                }
                Op::FlipK1Insert { obj, cell, v }
            }
            4 => Op::FlipK1Remove { obj, v: self.vertex_handle(&mut rng, snap) },
            5 => {
                if self.embedded_k2_permille > 0
                    && rng.below(1000) < self.embedded_k2_permille
                    && let Some(op) = self.embedded_k2(&mut rng, snap, obj)
                {
                    return op;
                }
                Op::FlipK2 { obj, cell: self.cell_handle(&mut rng, snap), facet: self.facet_index(&mut rng) }
            }
            6 => Op::FlipK3 {
                obj,
                cell: self.cell_handle(&mut rng, snap),
                omit_a: self.facet_index(&mut rng),
                omit_b: self.facet_index(&mut rng),
            },
            7 => {
                let h = self.face_handles(&mut rng, snap, 2);
                Op::FlipK2Inv { obj, a: h[0].clone(), b: h[1].clone() }
            }
            8 => {
                let h = self.face_handles(&mut rng, snap, 3);
                Op::FlipK3Inv { obj, a: h[0].clone(), b: h[1].clone(), c: h[2].clone() }
            }
            9 => Op::Repair { obj },
            10 => Op::RepairAdv {
                obj,
                seeds: if rng.chance(1, 2) { Some((rng.next_u64() | 1, rng.next_u64() | 1)) } else { None },
            },
            11 => {
                let which = *rng.pick(&["validation", "repair", "check", "guarantee"]);
                let value = match which {
                    "validation" => *rng.pick(&["Never", "OnSuspicion", "Always", "DebugOnly"]),
                    "repair" => *rng.pick(&["Never", "EveryInsertion", "EveryN2", "EveryN3"]),
                    "check" => *rng.pick(&["EndOnly", "EveryN1", "EveryN2"]),
                    _ => *rng.pick(GUARANTEES),
                };
                Op::SetPolicy { obj, which: which.to_string(), value: value.to_string() }
            }
            _ => Op::TouchMut { obj },
        }
    }

    pub fn random_opts(&self, rng: &mut Rng) -> Opts {
        let order = *rng.pick(&["Default", "Input", "Hilbert", "Morton", "Lexicographic"]);
        let dedup = *rng.pick(&["Default", "Off", "Exact", "Epsilon"]);
        let tols = [0.0f64, 1e-13, 1e-10, 1e-6, 0.3];
        let simplex = *rng.pick(&["Default", "First", "Balanced"]);
        let retry = *rng.pick(&["Default", "Disabled", "Shuffled", "DebugOnlyShuffled"]);
        Opts {
            order: order.into(),
            dedup: dedup.into(),
            dedup_tol_bits: rng.pick(&tols).to_bits(),
            simplex: simplex.into(),
            retry: retry.into(),
            retry_attempts: 1 + rng.usize_below(3),
            retry_seed: if rng.chance(1, 2) { Some(rng.next_u64()) } else { None },
        }
    }
}
