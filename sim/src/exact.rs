//! Exact geometric oracle: orientation, in-sphere and side-of-hyperplane signs computed in
//! arbitrary-precision integer arithmetic on the exact dyadic values of the `f64` inputs.
//!
//! Every result carries a `decidable` flag implementing the *tolerance-band abstention* of
//! DESIGN §4: the properties only speak about inputs "outside the predicates' documented
//! tolerance band", so when the exact determinant is non-zero but tiny relative to the
//! library's dead band (1e-12·(1+‖A‖∞)) or to the rounding scale of an LU evaluation
//! (Hadamard bound × ε), callers must abstain. Exactly-zero determinants are decidable.

use crate::big::{decompose, Big};

#[derive(Clone, Copy, Debug, PartialEq, Eq)]
pub struct Sign {
    /// -1, 0, +1 (exact)
    pub sign: i32,
    /// false ⇒ inside the tolerance band; caller abstains (unless sign == 0, always decidable)
    pub decidable: bool,
}

fn min_exponent(points: &[&[f64]]) -> i32 {
    let mut min_e = i32::MAX;
    for p in points {
        for &c in *p {
            let (m, e) = decompose(c);
            if m != 0 && e < min_e {
                min_e = e;
            }
        }
    }
    if min_e == i32::MAX { 0 } else { min_e }
}

/// Determinant of an n×n Big matrix by Laplace expansion with memoised minors.
fn det(m: &[Vec<Big>]) -> Big {
    let n = m.len();
    if n == 0 {
        return Big::one();
    }
    // minors[mask] = det of rows 0..popcount(mask) restricted to columns in mask
    let full = (1usize << n) - 1;
    let mut minors: Vec<Option<Big>> = vec![None; full + 1];
    minors[0] = Some(Big::one());
    for mask in 1..=full {
        let r = (mask as u32).count_ones() as usize - 1; // row index of the last row used
        let mut acc = Big::zero();
        let mut pos = 0usize; // position of column c among the columns in mask
        for c in 0..n {
            if mask & (1 << c) == 0 {
                continue;
            }
            let sub = minors[mask & !(1 << c)].as_ref().expect("submask computed");
            if !m[r][c].is_zero() && !sub.is_zero() {
                let term = m[r][c].mul(sub);
                // expanding along the LAST row r of the r+1 rows: sign = (-1)^(r + pos)
                if (r + pos) % 2 == 0 {
                    acc = acc.add(&term);
                } else {
                    acc = acc.sub(&term);
                }
            }
            pos += 1;
        }
        minors[mask] = Some(acc);
    }
    minors[full].take().expect("full minor")
}

fn to_big_points(points: &[&[f64]], min_e: i32) -> Vec<Vec<Big>> {
    points
        .iter()
        .map(|p| p.iter().map(|&c| Big::from_f64_scaled(c, min_e)).collect())
        .collect()
}

fn log2_f(x: f64) -> f64 {
    if x <= 0.0 { f64::NEG_INFINITY } else { x.log2() }
}

/// Norms of the library-form matrix rows, used for the abstention band.
/// `lift` adds the squared-norm column. Returns (log2 ‖A‖∞ (excluding the ones column), log2 Hadamard).
fn band_norms(points: &[&[f64]], lift: bool) -> (f64, f64) {
    let mut max_row = 0.0f64;
    let mut log_h = 0.0f64;
    for p in points {
        let mut s1 = 0.0f64;
        let mut s2 = 0.0f64;
        for &c in *p {
            s1 += c.abs();
            s2 += c * c;
        }
        let mut row2 = s2 + 1.0;
        if lift {
            s1 += s2;
            row2 += s2 * s2;
        }
        if s1 > max_row {
            max_row = s1;
        }
        log_h += 0.5 * log2_f(row2);
    }
    (log2_f(max_row), log_h)
}

thread_local! {
    /// safety factor on the absolute part of the dead band (default 1e6, see `decidable`)
    static ABS_BAND_SAFETY: std::cell::Cell<f64> = const { std::cell::Cell::new(1e6) };
}

/// Install the safety factor on the absolute dead band for this thread (one run = one thread).
/// The `small` input family (well-conditioned dyadic points in a 4e-3 box, no near-duplicates)
/// uses 10: there the library's dead band is the only thing between a determinant and its sign.
pub fn set_abs_band_safety(f: f64) {
    ABS_BAND_SAFETY.with(|c| c.set(f));
}

/// Decide whether an exact determinant (integer `d` at scale 2^(min_e*deg)) is outside the band.
fn decidable(d: &Big, min_e: i32, deg: i32, norms: (f64, f64)) -> bool {
    let (log_a0, log_h0) = norms;
    if d.is_zero() {
        // An exactly zero determinant is reported as degenerate by the library only when the
        // rounding error of its floating-point evaluation stays below its dead band
        // (1e-12 * (1 + ||A||inf)); with a large Hadamard bound the computed value can land on
        // either side, so the instance is outside what the properties promise.
        let a_inf = if log_a0.is_finite() { log_a0.exp2() } else { 0.0 };
        return log_h0 + log2_f(4e-15) < log2_f(1e-12 * (1.0 + a_inf));
    }
    let log_det = d.log2_abs() + f64::from(min_e) * f64::from(deg);
    let (log_a, log_h) = norms;
    // absolute dead band: 1e-12 * (1 + ||A||inf), with a 1e6 safety factor (keeps the
    // ill-conditioned near-duplicate clusters, where the library's other in-sphere formulations
    // lose more than the LU bound, out of the judged set)
    let a_inf = if log_a.is_finite() { log_a.exp2() } else { 0.0 };
    let abs_band = log2_f(1e-12 * ABS_BAND_SAFETY.with(std::cell::Cell::get) * (1.0 + a_inf));
    // relative rounding scale: an a-priori LU bound is ~ n * growth * eps * Hadamard
    // (<= 7 * 64 * 1.1e-16 = 5e-14 for the largest matrix); 1e-12 leaves a factor 20 on top of
    // that worst case. (Until round 1 this was 1e-9, which made the oracle abstain from
    // violations that penetrate a circumsphere by a third of its radius on small-integer input.)
    let rel_band = log_h + log2_f(1e-12);
    log_det > abs_band && log_det > rel_band
}

/// Orientation of D+1 points in dimension D: sign of det[p_i - p_0]_{i=1..D} times (-1)^D,
/// i.e. the sign of det[[p_i, 1]] (the conventional orientation matrix).
pub fn orient(points: &[&[f64]]) -> Sign {
    let d = points[0].len();
    assert_eq!(points.len(), d + 1, "orient needs D+1 points");
    let min_e = min_exponent(points);
    let bp = to_big_points(points, min_e);
    let m: Vec<Vec<Big>> = (1..=d)
        .map(|i| (0..d).map(|j| bp[i][j].sub(&bp[0][j])).collect())
        .collect();
    let mut dt = det(&m);
    if d % 2 == 1 {
        dt = dt.neg();
    }
    let dec = decidable(&dt, min_e, d as i32, band_norms(points, false));
    Sign { sign: dt.signum(), decidable: dec }
}

/// Raw in-sphere determinant sign times orientation sign (uncalibrated).
fn insphere_raw(simplex: &[&[f64]], q: &[f64]) -> (i32, bool, i32) {
    let d = q.len();
    assert_eq!(simplex.len(), d + 1);
    let mut all: Vec<&[f64]> = simplex.to_vec();
    all.push(q);
    let min_e = min_exponent(&all);
    let bp = to_big_points(&all, min_e);
    let bq = &bp[d + 1];
    // rows: (p_i - q, |p_i - q|^2), i = 0..=D  → (D+1)x(D+1)
    let m: Vec<Vec<Big>> = (0..=d)
        .map(|i| {
            let mut row: Vec<Big> = (0..d).map(|j| bp[i][j].sub(&bq[j])).collect();
            let mut sq = Big::zero();
            for x in &row {
                sq = sq.add(&x.mul(x));
            }
            row.push(sq);
            row
        })
        .collect();
    let dm = det(&m);
    let dec = decidable(&dm, min_e, d as i32 + 2, band_norms(&all, true));
    let o = orient(simplex);
    (dm.signum() * o.sign, dec && o.decidable && o.sign != 0, o.sign)
}

fn calibration(d: usize) -> i32 {
    // standard simplex (origin + unit vectors), q = (1/4, ..., 1/4): strictly inside the simplex,
    // hence strictly inside its circumsphere.
    let mut pts: Vec<Vec<f64>> = vec![vec![0.0; d]];
    for i in 0..d {
        let mut p = vec![0.0; d];
        p[i] = 1.0;
        pts.push(p);
    }
    let q = vec![0.25; d];
    let refs: Vec<&[f64]> = pts.iter().map(Vec::as_slice).collect();
    let (s, _, _) = insphere_raw(&refs, &q);
    assert!(s != 0);
    s
}

/// In-sphere test: sign +1 ⇔ `q` strictly inside the circumsphere of `simplex`,
/// 0 ⇔ exactly on it, -1 ⇔ strictly outside. If the simplex is exactly degenerate the
/// result is `sign: 0, decidable: false`.
pub fn insphere(simplex: &[&[f64]], q: &[f64]) -> Sign {
    use std::sync::OnceLock;
    static CAL: OnceLock<[i32; 8]> = OnceLock::new();
    let cal = CAL.get_or_init(|| {
        let mut c = [1i32; 8];
        for (d, slot) in c.iter_mut().enumerate().skip(1).take(6) {
            *slot = calibration(d);
        }
        c
    });
    let d = q.len();
    let (raw, dec, osign) = insphere_raw(simplex, q);
    if osign == 0 {
        return Sign { sign: 0, decidable: false };
    }
    Sign { sign: raw * cal[d], decidable: dec }
}

/// Side of `q` relative to the hyperplane through `facet` (D points), oriented so that
/// `opposite` is on the positive side: +1 same side as `opposite`, 0 on the hyperplane,
/// -1 strictly on the other side. Undecidable if the facet+opposite simplex is degenerate.
pub fn side(facet: &[&[f64]], opposite: &[f64], q: &[f64]) -> Sign {
    let mut a: Vec<&[f64]> = facet.to_vec();
    a.push(opposite);
    let mut b: Vec<&[f64]> = facet.to_vec();
    b.push(q);
    let oa = orient(&a);
    let ob = orient(&b);
    if oa.sign == 0 {
        return Sign { sign: 0, decidable: false };
    }
    Sign { sign: oa.sign * ob.sign, decidable: oa.decidable && ob.decidable }
}

/// Is `q` in the closed simplex? Returns (inside_closed, decidable).
/// inside_closed ⇔ for every vertex i, q is on the same side as p_i of the opposite facet, or on it.
pub fn in_closed_simplex(simplex: &[&[f64]], q: &[f64]) -> (bool, bool) {
    let n = simplex.len();
    let mut inside = true;
    let mut dec = true;
    for i in 0..n {
        let facet: Vec<&[f64]> = (0..n).filter(|&j| j != i).map(|j| simplex[j]).collect();
        let s = side(&facet, simplex[i], q);
        if !s.decidable {
            dec = false;
        }
        if s.sign < 0 {
            inside = false;
        }
    }
    (inside, dec)
}

/// Exact squared distance comparison: is |a-b|^2 < tol^2 ?
pub fn dist_sq_lt(a: &[f64], b: &[f64], tol: f64) -> bool {
    let t = [tol];
    let pts: Vec<&[f64]> = vec![a, b, &t];
    let min_e = min_exponent(&pts);
    let mut acc = Big::zero();
    for j in 0..a.len() {
        let x = Big::from_f64_scaled(a[j], min_e).sub(&Big::from_f64_scaled(b[j], min_e));
        acc = acc.add(&x.mul(&x));
    }
    let bt = Big::from_f64_scaled(tol, min_e);
    acc.cmp(&bt.mul(&bt)) == std::cmp::Ordering::Less
}

#[cfg(test)]
mod tests {
    use super::*;

    fn r(v: &[Vec<f64>]) -> Vec<&[f64]> {
        v.iter().map(Vec::as_slice).collect()
    }

    #[test]
    fn orient_2d() {
        let ccw = vec![vec![0.0, 0.0], vec![1.0, 0.0], vec![0.0, 1.0]];
        assert_eq!(orient(&r(&ccw)).sign, 1);
        let cw = vec![vec![0.0, 0.0], vec![0.0, 1.0], vec![1.0, 0.0]];
        assert_eq!(orient(&r(&cw)).sign, -1);
        let col = vec![vec![0.0, 0.0], vec![1.0, 1.0], vec![2.0, 2.0]];
        assert_eq!(orient(&r(&col)).sign, 0);
    }

    #[test]
    fn insphere_all_dims() {
        for d in 1..=5usize {
            let mut pts: Vec<Vec<f64>> = vec![vec![0.0; d]];
            for i in 0..d {
                let mut p = vec![0.0; d];
                p[i] = 2.0;
                pts.push(p);
            }
            // circumcentre is (1,..,1), radius^2 = d
            let inside = vec![1.0; d];
            let mut on = vec![0.0; d];
            on[0] = 2.0;
            if d > 1 {
                on[1] = 2.0; // (2,2,0..): dist^2 to centre = 1+1+(d-2) = d → on sphere
            }
            let outside = vec![5.0; d];
            // both orientations of the simplex
            for swap in [false, true] {
                let mut s = pts.clone();
                if swap {
                    s.swap(0, 1);
                }
                assert_eq!(insphere(&r(&s), &inside).sign, 1, "d={d}");
                assert_eq!(insphere(&r(&s), &outside).sign, -1, "d={d}");
                if d > 1 {
                    assert_eq!(insphere(&r(&s), &on).sign, 0, "d={d}");
                }
            }
        }
    }

    #[test]
    fn closed_simplex() {
        let t = vec![vec![0.0, 0.0], vec![4.0, 0.0], vec![0.0, 4.0]];
        assert!(in_closed_simplex(&r(&t), &[1.0, 1.0]).0);
        assert!(in_closed_simplex(&r(&t), &[2.0, 2.0]).0); // on edge
        assert!(in_closed_simplex(&r(&t), &[0.0, 0.0]).0); // on vertex
        assert!(!in_closed_simplex(&r(&t), &[3.0, 3.0]).0);
        assert!(dist_sq_lt(&[0.0, 0.0], &[5e-11, 0.0], 1e-10));
        assert!(!dist_sq_lt(&[0.0, 0.0], &[1e-10, 0.0], 1e-10));
    }
}

#[cfg(test)]
mod regress {
    use super::*;
    #[test]
    fn c08_case() {
        let s: Vec<Vec<f64>> = vec![vec![3.0, 3.0, 1.0], vec![3.0, 1.0, 2.0], vec![1.0, 1.0, 1.0], vec![3.0, 2.0, 2.0]];
        let r: Vec<&[f64]> = s.iter().map(Vec::as_slice).collect();
        let q = [3.0, 1.0, 1.0];
        let o = orient(&r);
        let i = insphere(&r, &q);
        eprintln!("orient {o:?} insphere {i:?}");
        assert_eq!(i.sign, 1);
        assert!(i.decidable);
    }
}
