//! delsim — deterministic simulation with fault injection for the `delaunay` crate.
//!
//! Subcommands (driven by /verif/check):
//!   worker   --prop P --seed S --start I --count N --tier quick|thorough --profile NAME
//!   replay   FILE
//!   minimize FILE OUT
//!   selftest

#![allow(dead_code)]
mod big;
mod c14;
mod checks;
mod exact;
mod exec;
mod generate;
mod geom;
mod history;
mod kfault;
mod monitors;
mod ops;
mod refdt;
mod refval;
mod rng;
mod run;
mod snap;

use ops::{OpRec, ReplayFile, ViolationRec};
use run::{RunReport, RunStats};
use std::io::Write;

fn arg(args: &[String], name: &str) -> Option<String> {
    args.iter().position(|a| a == name).and_then(|i| args.get(i + 1).cloned())
}

fn scrub_env() {
    // N4: environment flags that change library behaviour/logging must not leak into runs.
    let keys: Vec<String> = std::env::vars()
        .map(|(k, _)| k)
        .filter(|k| k.starts_with("DELAUNAY_") || k == "TEST_DEBUG" || k == "MAX_GRID_BYTES_SAFETY_CAP" || k == "VALIDATION_BUDGET_MS")
        .collect();
    for k in keys {
        // SAFETY-free: std::env::remove_var is unsafe in edition 2024; use a child-free approach:
        // we refuse to run instead of mutating the environment.
        eprintln!("delsim: refusing to run with {k} set in the environment");
        std::process::exit(2);
    }
}

/// Execute one run on a fresh OS thread (clean thread-locals).
fn run_isolated(header: ops::Header, replay: Option<Vec<OpRec>>, thorough: bool) -> Result<RunReport, String> {
    let h = std::thread::Builder::new()
        .stack_size(32 << 20)
        .spawn(move || checks::run_header(&header, replay.as_deref(), thorough))
        .map_err(|e| e.to_string())?;
    h.join().map_err(|p| {
        if let Some(s) = p.downcast_ref::<String>() {
            s.clone()
        } else if let Some(s) = p.downcast_ref::<&str>() {
            (*s).to_string()
        } else {
            "harness panic".to_string()
        }
    })
}

fn same_violation(a: &ViolationRec, b: &ViolationRec) -> bool {
    a.property == b.property && a.clause == b.clause && a.signature == b.signature
}

fn worker(args: &[String]) -> i32 {
    let prop = arg(args, "--prop").expect("--prop");
    let seed: u64 = arg(args, "--seed").and_then(|s| s.parse().ok()).unwrap_or(1);
    let start: u64 = arg(args, "--start").and_then(|s| s.parse().ok()).unwrap_or(0);
    let count: u64 = arg(args, "--count").and_then(|s| s.parse().ok()).unwrap_or(1);
    let stride: u64 = arg(args, "--stride").and_then(|s| s.parse().ok()).unwrap_or(1);
    let deadline_s: f64 = arg(args, "--budget-s").and_then(|s| s.parse().ok()).unwrap_or(1e9);
    let thorough = arg(args, "--tier").as_deref() == Some("thorough");
    let profile = arg(args, "--profile").unwrap_or_else(|| "simdebug".into());
    let hashes_only = args.iter().any(|a| a == "--hashes");
    let t0 = std::time::Instant::now();
    let mut agg = RunStats::default();
    let mut runs = 0u64;
    let out = std::io::stdout();
    let mut samples: Vec<serde_json::Value> = Vec::new();
    let mut k = 0u64;
    while k < count {
        // wall clock only bounds the *batch*; it never influences a run's content
        if t0.elapsed().as_secs_f64() > deadline_s {
            break;
        }
        let run_index = start + k * stride;
        k += 1;
        history::HEARTBEAT.store(true, std::sync::atomic::Ordering::Relaxed);
        let mut header = checks::make_header(&prop, &profile, seed, run_index);
        if thorough {
            header.params.insert("thorough".into(), 1);
        }
        {
            let mut o = out.lock();
            let _ = writeln!(o, "{}", serde_json::json!({"begin": run_index, "run_seed": header.run_seed}));
            let _ = o.flush();
        }
        let t_run = std::time::Instant::now();
        match run_isolated(header.clone(), None, thorough) {
            Ok(rep) => {
                runs += 1;
                agg.merge(&rep.stats);
                let mut line = serde_json::json!({"end": run_index, "run_seed": header.run_seed, "log_hash": rep.log_hash, "steps": rep.stats.steps, "ms": t_run.elapsed().as_millis() as u64, "dim": header.dim});
                if !rep.violations.is_empty() {
                    line["violations"] = serde_json::to_value(&rep.violations).unwrap();
                    line["replay"] = serde_json::to_value(ReplayFile {
                        header: rep.header.clone(),
                        ops: rep.ops.clone(),
                        expect: rep.violations.first().cloned(),
                        minimised: false,
                        original_len: rep.ops.len(),
                    })
                    .unwrap();
                }
                if samples.len() < 3 && !hashes_only {
                    samples.push(serde_json::json!({
                        "run_index": run_index, "dim": header.dim, "kernel": header.kernel, "family": header.family,
                        "trace": rep.trace.iter().take(24).collect::<Vec<_>>(),
                    }));
                }
                let mut o = out.lock();
                let _ = writeln!(o, "{line}");
                let _ = o.flush();
            }
            Err(e) => {
                let mut o = out.lock();
                let _ = writeln!(o, "{}", serde_json::json!({"harness_error": run_index, "message": e}));
                let _ = o.flush();
                return 2;
            }
        }
    }
    let mut o = out.lock();
    let _ = writeln!(
        o,
        "{}",
        serde_json::json!({"agg": agg, "runs": runs, "wall_s": t0.elapsed().as_secs_f64(), "samples": samples})
    );
    0
}

fn replay_cmd(args: &[String]) -> i32 {
    let path = &args[0];
    let text = match std::fs::read_to_string(path) {
        Ok(t) => t,
        Err(e) => {
            eprintln!("cannot read {path}: {e}");
            return 2;
        }
    };
    let file: ReplayFile = match serde_json::from_str(&text) {
        Ok(f) => f,
        Err(e) => {
            eprintln!("bad replay file: {e}");
            return 2;
        }
    };
    let thorough = file.header.params.get("thorough").copied().unwrap_or(0) != 0;
    match run_isolated(file.header.clone(), Some(file.ops.clone()), thorough) {
        Ok(rep) => {
            println!("{}", serde_json::json!({"log_hash": rep.log_hash, "violations": rep.violations, "trace": rep.trace}));
            match &file.expect {
                Some(exp) => {
                    if rep.violations.iter().any(|v| same_violation(v, exp)) {
                        println!("REPRODUCED property={} clause={} signature={}", exp.property, exp.clause, exp.signature);
                        1
                    } else {
                        println!("NOT-REPRODUCED property={} clause={} signature={}", exp.property, exp.clause, exp.signature);
                        3
                    }
                }
                None => i32::from(!rep.violations.is_empty()),
            }
        }
        Err(e) => {
            eprintln!("harness error: {e}");
            2
        }
    }
}

/// ddmin over the op list (prologue op 0 is kept), then fault simplification.
fn minimize_cmd(args: &[String]) -> i32 {
    let path = &args[0];
    let out_path = &args[1];
    let file: ReplayFile = serde_json::from_str(&std::fs::read_to_string(path).expect("read")).expect("parse");
    let Some(exp) = file.expect.clone() else { return 2 };
    let thorough = file.header.params.get("thorough").copied().unwrap_or(0) != 0;
    let t0 = std::time::Instant::now();
    let budget = 90.0;
    let fails = |ops: &[OpRec]| -> bool {
        match run_isolated(file.header.clone(), Some(ops.to_vec()), thorough) {
            Ok(rep) => rep.violations.iter().any(|v| same_violation(v, &exp)),
            Err(_) => false,
        }
    };
    let mut ops = file.ops.clone();
    if !fails(&ops) {
        eprintln!("minimize: original does not reproduce");
        return 3;
    }
    // truncate after the violating step first
    if exp.step + 1 < ops.len() {
        let cut: Vec<OpRec> = ops[..=exp.step].to_vec();
        if fails(&cut) {
            ops = cut;
        }
    }
    let mut chunk = (ops.len() / 2).max(1);
    while chunk >= 1 && t0.elapsed().as_secs_f64() < budget {
        let mut i = 1; // keep op 0 (construction)
        let mut progressed = false;
        while i < ops.len() && t0.elapsed().as_secs_f64() < budget {
            let end = (i + chunk).min(ops.len());
            let mut cand: Vec<OpRec> = ops[..i].to_vec();
            cand.extend_from_slice(&ops[end..]);
            if cand.len() < ops.len() && fails(&cand) {
                ops = cand;
                progressed = true;
            } else {
                i += chunk;
            }
        }
        if chunk == 1 && !progressed {
            break;
        }
        chunk = if progressed { chunk } else { chunk / 2 };
        if chunk == 0 {
            break;
        }
    }
    // drop knobs / class-A faults when not needed
    for i in 0..ops.len() {
        if t0.elapsed().as_secs_f64() > budget {
            break;
        }
        if !ops[i].knobs.is_empty() {
            let mut cand = ops.clone();
            cand[i].knobs.clear();
            if fails(&cand) {
                ops = cand;
            }
        }
        if !ops[i].faults.is_empty() {
            let mut cand = ops.clone();
            cand[i].faults.clear();
            if fails(&cand) {
                ops = cand;
            }
        }
    }
    // shrink the initial vertex list of a New op
    if let ops::Op::New { verts, .. } = &ops[0].op {
        let mut n = verts.len();
        while n > file.header.dim + 1 && t0.elapsed().as_secs_f64() < budget {
            let mut cand = ops.clone();
            if let ops::Op::New { verts, .. } = &mut cand[0].op {
                verts.truncate(n - 1);
            }
            if fails(&cand) {
                ops = cand;
                n -= 1;
            } else {
                break;
            }
        }
    }
    // final: recompute the expectation (step index changes)
    let rep = run_isolated(file.header.clone(), Some(ops.clone()), thorough).expect("final run");
    let expect = rep.violations.iter().find(|v| same_violation(v, &exp)).cloned();
    let outf = ReplayFile { header: file.header.clone(), ops, expect, minimised: true, original_len: file.original_len };
    std::fs::write(out_path, serde_json::to_string_pretty(&outf).unwrap()).expect("write");
    println!("MINIMISED {} -> {} ops", file.original_len, outf.ops.len());
    0
}

/// Replay a file and print the final state of every live object (debugging aid).
fn dump_cmd(args: &[String]) -> i32 {
    let file: ReplayFile = serde_json::from_str(&std::fs::read_to_string(&args[0]).expect("read")).expect("parse");
    let header = file.header.clone();
    let ops = file.ops.clone();
    let h = std::thread::spawn(move || checks::dump_header(&header, &ops));
    match h.join() {
        Ok(v) => {
            println!("{}", serde_json::to_string_pretty(&v).unwrap());
            0
        }
        Err(_) => 2,
    }
}

fn main() {
    std::panic::set_hook(Box::new(|_| {}));
    scrub_env();
    let args: Vec<String> = std::env::args().skip(1).collect();
    if args.is_empty() {
        eprintln!("usage: delsim worker|replay|minimize ...");
        std::process::exit(2);
    }
    let code = match args[0].as_str() {
        "worker" => worker(&args[1..]),
        "replay" => replay_cmd(&args[1..]),
        "minimize" => minimize_cmd(&args[1..]),
        "dump" => dump_cmd(&args[1..]),
        _ => {
            eprintln!("unknown subcommand");
            2
        }
    };
    std::process::exit(code);
}
