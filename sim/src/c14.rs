//! C14 — construction is deterministic and independent of input order where promised.
//!
//! One run = one point set and one option set, constructed many times while the seams a
//! deterministic simulator owns are varied: the library-UUID stream (F-rng), the executing
//! thread (current / fresh / a thread whose thread-locals and the process statics were dirtied
//! by an unrelated history with failed operations, knobs and a forced heuristic rebuild), the
//! order of the input slice (for the orderings that promise independence), the kernel, and
//! batch vs incremental construction. Variants are ordinary `New`/`Insert` operations, so the
//! replay file is the concrete list of constructions.

use crate::exec::{construct, run_mutator, OutKind, Plan, SimKernel};
use crate::generate::{make_pool, max_vertices, GUARANTEES};
use crate::ops::{Header, Op, OpRec, Opts, VSpec, ViolationRec};
use crate::refdt;
use crate::refval;
use crate::rng::{derive, Rng};
use crate::run::{push_violation, violation, RunLog, RunReport, RunStats};
use crate::snap::{Canon, Snap};
use crate::kfault::{SimFast, SimRobust};

#[derive(Clone)]
struct Variant {
    label: String,
    /// 0 = same thread, 1 = fresh thread, 2 = dirtied thread
    thread: u8,
    kernel: &'static str,
    op: OpRec,
    /// incremental: Empty followed by inserts in this order
    incremental: bool,
}

struct Built {
    ok: bool,
    class: String,
    snap: Option<Snap>,
    canon: Option<Canon>,
    cstats: Option<(usize, usize, usize)>,
    certified: bool,
    strict: bool,
}

fn build_one<K: SimKernel<D>, const D: usize>(run_seed: u64, v: &Variant) -> Built {
    let plan = Plan { faults: v.op.faults.clone(), knobs: v.op.knobs.clone(), uuid_seed: derive(run_seed, "uuid", v.op.idx), tick_limit: 0 };
    let (dt, class, cstats) = if v.incremental {
        let Op::New { verts, tg, .. } = &v.op.op else { unreachable!() };
        let b = construct::<K, D>(&plan, &Op::Empty { obj: 0, tg: tg.clone() });
        let mut dt = b.dt;
        let mut class = "Ok:incremental".to_string();
        if let Some(d) = dt.as_mut() {
            for (i, vs) in verts.iter().enumerate() {
                let mut p = plan.clone();
                p.uuid_seed = derive(run_seed, "uuid-inc", v.op.idx * 64 + i as u64);
                let o = run_mutator(d, &p, &Op::Insert { obj: 0, v: vs.clone(), stats: false });
                if o.kind != OutKind::Ok {
                    class = format!("incremental-insert-{}", o.class());
                    break;
                }
            }
        }
        (dt, class, None)
    } else {
        let b = construct::<K, D>(&plan, &v.op.op);
        let cs = b.out.cstats.as_ref().map(|c| (c.0, c.1, c.2));
        (b.dt, b.out.class(), cs)
    };
    match dt {
        Some(dt) if class.starts_with("Ok") => {
            let snap = Snap::of(&dt);
            let certified = dt.validate().is_ok();
            let rv = refval::validate(&snap, crate::monitors::valid::strength_of(&snap), true);
            let strict = rv.ok() && rv.geo_positive == Some(true) && crate::geom::convex_boundary(&snap) == crate::geom::Tri::Yes && refdt::check(&snap).strict;
            let canon = snap.canonical();
            Built { ok: true, class, snap: Some(snap), canon: Some(canon), cstats, certified, strict }
        }
        _ => Built { ok: false, class, snap: None, canon: None, cstats, certified: false, strict: false },
    }
}

/// Dirty this thread's thread-locals and the process statics with an unrelated seeded history.
fn dirty_thread<const D: usize>(seed: u64) {
    let mut rng = Rng::sub(seed, "dirty", 0);
    let pool = make_pool("grid", D, seed ^ 0x5151, 12);
    let verts: Vec<VSpec> = pool.iter().take(D + 3).map(|p| VSpec::new(p, rng.uuid128(), None)).collect();
    let plan = Plan {
        faults: vec![("repair.attempt.nonconvergent".into(), 0), ("repair.attempt.nonconvergent".into(), 1), ("repair.attempt.nonconvergent".into(), 2), ("dt.rebuild.attempt".into(), 0)],
        knobs: vec![("repair.max_flips".into(), 1), ("locate.max_steps".into(), 1), ("rebuild.attempts".into(), 1)],
        uuid_seed: seed,
        tick_limit: 0,
    };
    let b = construct::<SimFast, D>(&plan, &Op::New { obj: 0, verts, ctor: "guarantee".into(), tg: "PLManifold".into(), opts: Opts::default() });
    if let Some(mut dt) = b.dt {
        for p in pool.iter().skip(D + 3).take(3) {
            let _ = run_mutator(&mut dt, &plan, &Op::Insert { obj: 0, v: VSpec::new(p, rng.uuid128(), None), stats: true });
        }
        let _ = run_mutator(&mut dt, &plan, &Op::RepairAdv { obj: 0, seeds: None });
        // a failing call and a stale-handle call
        let _ = run_mutator(&mut dt, &plan, &Op::FlipK2 { obj: 0, cell: crate::ops::CRef::Raw(0x0000_0009_0000_0009), facet: 200 });
    }
    // a tick-ceiling panic inside a library call (caught), leaving whatever thread-local state it leaves
    let mut p2 = plan.clone();
    p2.tick_limit = 1;
    let pool2 = make_pool("dyadic", D, seed ^ 0x7777, 10);
    let verts2: Vec<VSpec> = pool2.iter().map(|p| VSpec::new(p, rng.uuid128(), None)).collect();
    let _ = construct::<SimRobust, D>(&p2, &Op::New { obj: 0, verts: verts2, ctor: "options".into(), tg: "PLManifold".into(), opts: Opts::default() });
}

fn build_variant<const D: usize>(run_seed: u64, v: &Variant) -> Built {
    let go = |v: &Variant| -> Built {
        if v.kernel == "fast" {
            build_one::<SimFast, D>(run_seed, v)
        } else {
            build_one::<SimRobust, D>(run_seed, v)
        }
    };
    match v.thread {
        0 => go(v),
        t => {
            let v2 = v.clone();
            let seed = run_seed;
            std::thread::Builder::new()
                .stack_size(32 << 20)
                .spawn(move || {
                    if t == 2 {
                        dirty_thread::<D>(seed ^ v2.op.idx);
                    }
                    if v2.kernel == "fast" {
                        build_one::<SimFast, D>(seed, &v2)
                    } else {
                        build_one::<SimRobust, D>(seed, &v2)
                    }
                })
                .expect("spawn")
                .join()
                .unwrap_or(Built { ok: false, class: "thread-panicked".into(), snap: None, canon: None, cstats: None, certified: false, strict: false })
        }
    }
}

fn vertex_identity(c: &Canon) -> &Vec<(u128, Vec<u64>, Option<i32>)> {
    &c.verts
}

fn generate<const D: usize>(header: &Header, thorough: bool) -> Vec<Variant> {
    let rs = header.run_seed;
    let mut rng = Rng::sub(rs, "c14", 0);
    let n = D + 2 + rng.usize_below(max_vertices(D, thorough).saturating_sub(D + 1).max(1));
    let pool = make_pool(&header.family, D, rs, n);
    let verts: Vec<VSpec> = pool
        .iter()
        .map(|p| VSpec::new(p, rng.uuid128(), if rng.chance(1, 2) { Some(rng.range_i64(-99, 99) as i32) } else { None }))
        .collect();
    let tg = (*rng.pick(GUARANTEES)).to_string();
    let order = *rng.pick(&["Hilbert", "Morton", "Lexicographic", "Input", "Default"]);
    let opts = Opts {
        order: order.into(),
        dedup: (*rng.pick(&["Off", "Exact", "Default"])).into(),
        dedup_tol_bits: 0,
        simplex: (*rng.pick(&["First", "Balanced", "Default"])).into(),
        retry: (*rng.pick(&["Disabled", "Shuffled", "DebugOnlyShuffled", "Default"])).into(),
        retry_attempts: 1 + rng.usize_below(3),
        retry_seed: Some(rng.next_u64()),
    };
    let ctor = (*rng.pick(&["options_stats", "options", "builder"])).to_string();
    let base_kernel: &'static str = if header.kernel == "fast" { "fast" } else { "robust" };
    let mk = |idx: u64, label: &str, verts: Vec<VSpec>, ctor: &str, opts: &Opts, thread: u8, kernel: &'static str, incremental: bool| Variant {
        label: label.to_string(),
        thread,
        kernel,
        incremental,
        op: OpRec { idx, op: Op::New { obj: 0, verts, ctor: ctor.to_string(), tg: tg.clone(), opts: opts.clone() }, faults: Vec::new(), knobs: Vec::new() },
    };
    let mut out = vec![mk(0, "base", verts.clone(), &ctor, &opts, 0, base_kernel, false)];
    out.push(mk(1, "same-input-other-uuid-stream", verts.clone(), &ctor, &opts, 0, base_kernel, false));
    out.push(mk(2, "same-input-fresh-thread", verts.clone(), &ctor, &opts, 1, base_kernel, false));
    out.push(mk(3, "same-input-dirtied-thread", verts.clone(), &ctor, &opts, 2, base_kernel, false));
    let mut perm = verts.clone();
    rng.shuffle(&mut perm);
    out.push(mk(4, "permuted-input", perm.clone(), &ctor, &opts, 0, base_kernel, false));
    let mut perm2 = verts.clone();
    perm2.reverse();
    out.push(mk(5, "reversed-input-dirtied-thread", perm2, &ctor, &opts, 2, base_kernel, false));
    // other orderings / kernel / incremental: for the general-position uniqueness clause
    let other = if base_kernel == "fast" { "robust" } else { "fast" };
    out.push(mk(6, "other-kernel", verts.clone(), &ctor, &opts, 0, other, false));
    let mut o2 = opts.clone();
    o2.order = (*rng.pick(&["Hilbert", "Morton", "Lexicographic", "Input"])).into();
    out.push(mk(7, "other-ordering", verts.clone(), "options", &o2, 1, base_kernel, false));
    out.push(mk(8, "incremental", perm, "incremental", &opts, 0, base_kernel, true));
    out
}

fn variant_from_oprec(o: &OpRec, header: &Header) -> Variant {
    // labels/threads/kernels are a function of idx (see `generate`)
    let base_kernel: &'static str = if header.kernel == "fast" { "fast" } else { "robust" };
    let other: &'static str = if base_kernel == "fast" { "robust" } else { "fast" };
    let (label, thread, kernel, incremental) = match o.idx {
        0 => ("base", 0, base_kernel, false),
        1 => ("same-input-other-uuid-stream", 0, base_kernel, false),
        2 => ("same-input-fresh-thread", 1, base_kernel, false),
        3 => ("same-input-dirtied-thread", 2, base_kernel, false),
        4 => ("permuted-input", 0, base_kernel, false),
        5 => ("reversed-input-dirtied-thread", 2, base_kernel, false),
        6 => ("other-kernel", 0, other, false),
        7 => ("other-ordering", 1, base_kernel, false),
        _ => ("incremental", 0, base_kernel, true),
    };
    Variant { label: label.into(), thread, kernel, op: o.clone(), incremental }
}

pub fn run<const D: usize>(header: &Header, replay: Option<&[OpRec]>, thorough: bool) -> RunReport {
    let variants: Vec<Variant> = match replay {
        Some(list) => list.iter().map(|o| variant_from_oprec(o, header)).collect(),
        None => generate::<D>(header, thorough),
    };
    let mut stats = RunStats::default();
    let mut violations: Vec<ViolationRec> = Vec::new();
    let mut log = RunLog::default();
    let built: Vec<Built> = variants.iter().map(|v| build_variant::<D>(header.run_seed, v)).collect();
    for (v, b) in variants.iter().zip(&built) {
        stats.executions += 1;
        stats.steps += 1;
        *stats.outcome_classes.entry(format!("{}:{}", v.label, b.class)).or_insert(0) += 1;
        stats.tuples.insert(format!("{}|{}", v.label, b.class));
        log.event(&format!("{} {} -> {}", v.op.idx, v.label, b.class));
        if let Some(c) = &b.canon {
            let h = c.hash64();
            log.state(h);
            stats.states.insert(h);
        }
    }
    let Some(base_pos) = variants.iter().position(|v| v.op.idx == 0) else {
        return RunReport { header: header.clone(), ops: variants.iter().map(|v| v.op.clone()).collect(), violations, log_hash: log.hash.0, stats, trace: log.trace };
    };
    let base = &built[base_pos];
    let Op::New { verts: base_verts, opts, .. } = &variants[base_pos].op.op else { unreachable!() };
    let distinct_coords = {
        let mut s = std::collections::BTreeSet::new();
        base_verts.iter().all(|v| s.insert(v.bits.clone()))
    };
    for (i, (v, b)) in variants.iter().zip(&built).enumerate() {
        if i == base_pos {
            continue;
        }
        stats.evaluations += 1;
        let step = i;
        match v.op.idx {
            // identical input and options: identical outcome, cells, vertices and statistics
            1..=3 => {
                if b.class != base.class || b.canon != base.canon || b.cstats != base.cstats {
                    push_violation(
                        &mut violations,
                        violation(
                            "C14",
                            "same-input-different-result",
                            step,
                            format!("variant={}", v.label),
                            format!(
                                "same vertex values and options built again ({}): outcome {} vs {}, cells equal: {}, vertices equal: {}, statistics {:?} vs {:?}",
                                v.label,
                                base.class,
                                b.class,
                                b.canon.as_ref().map(|c| &c.cells) == base.canon.as_ref().map(|c| &c.cells),
                                b.canon.as_ref().map(vertex_identity) == base.canon.as_ref().map(vertex_identity),
                                base.cstats,
                                b.cstats
                            ),
                        ),
                    );
                }
            }
            // permuted input: invariant for the curve / lexicographic orderings
            4 | 5 => {
                let promised = matches!(opts.order.as_str(), "Hilbert" | "Morton" | "Lexicographic" | "Default");
                if promised && (distinct_coords || opts.dedup == "Exact") && (b.class != base.class || b.canon != base.canon) {
                    push_violation(
                        &mut violations,
                        violation(
                            "C14",
                            "result-depends-on-input-order",
                            step,
                            format!("variant={}|order={}", v.label, opts.order),
                            format!(
                                "ordering {} promises independence of the caller's listing order, but {}: outcome {} vs {}, cells equal: {}, vertices equal: {}",
                                opts.order,
                                v.label,
                                base.class,
                                b.class,
                                b.canon.as_ref().map(|c| &c.cells) == base.canon.as_ref().map(|c| &c.cells),
                                b.canon.as_ref().map(vertex_identity) == base.canon.as_ref().map(vertex_identity)
                            ),
                        ),
                    );
                }
            }
            // general position: every certified construction of the same surviving vertex set is the one DT
            _ => {
                if header.family == "dyadic"
                    && base.ok
                    && b.ok
                    && base.certified
                    && b.certified
                    && let (Some(a), Some(c)) = (&base.canon, &b.canon)
                    && a.verts == c.verts
                    && a.cells != c.cells
                {
                    push_violation(
                        &mut violations,
                        violation(
                            "C14",
                            "two-certified-constructions-differ",
                            step,
                            format!("variant={}|d={}|strict={}/{}", v.label, D, base.strict, b.strict),
                            format!("general-position point set, same surviving vertices, both certified by validate(), yet the cell sets differ ({} vs {} cells); exact strictly-Delaunay: base {}, {} {}", a.cells.len(), c.cells.len(), base.strict, v.label, b.strict),
                        ),
                    );
                }
            }
        }
    }
    let _ = base.snap.as_ref();
    stats.take_probes();
    RunReport { header: header.clone(), ops: variants.iter().map(|v| v.op.clone()).collect(), violations, log_hash: log.hash.0, stats, trace: log.trace }
}
