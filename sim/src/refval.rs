//! Reference validators (Levels 1–3) recomputed independently from the raw cells of a `Snap`.
//!
//! They implement the *documented* definitions (docs/validation.md, docs/invariants.md), keyed
//! by sorted vertex-key tuples rather than the library's 64-bit facet hashes, and use the exact
//! arithmetic oracle for geometric orientation (with tolerance-band abstention).

use crate::exact;
use crate::snap::Snap;
use std::collections::{BTreeMap, BTreeSet};

#[derive(Clone, Copy, Debug, PartialEq, Eq, PartialOrd, Ord)]
pub enum Strength {
    Pseudomanifold,
    PLManifold,
    PLManifoldStrict,
}

impl Strength {
    pub fn from_policy_string(s: &str) -> Self {
        match s {
            "Pseudomanifold" => Self::Pseudomanifold,
            "PLManifoldStrict" => Self::PLManifoldStrict,
            _ => Self::PLManifold,
        }
    }
}

#[derive(Clone, Debug, PartialEq, Eq)]
pub struct Violation {
    pub level: u8,
    pub kind: &'static str,
    pub detail: String,
}

#[derive(Clone, Debug, Default)]
pub struct Report {
    pub violations: Vec<Violation>,
    /// geometric orientation instances inside the tolerance band (abstained)
    pub abstained: usize,
    pub euler: Option<i64>,
    pub boundary_facets: usize,
    /// all cells have exact strictly positive orientation (None if any abstained)
    pub geo_positive: Option<bool>,
}

impl Report {
    pub fn ok(&self) -> bool {
        self.violations.is_empty()
    }
    pub fn ok_upto(&self, level: u8) -> bool {
        !self.violations.iter().any(|v| v.level <= level)
    }
    pub fn first(&self) -> Option<&Violation> {
        self.violations.iter().min_by_key(|v| v.level)
    }
    pub fn has_level(&self, level: u8) -> bool {
        self.violations.iter().any(|v| v.level == level)
    }
    fn push(&mut self, level: u8, kind: &'static str, detail: String) {
        if self.violations.len() < 64 {
            self.violations.push(Violation { level, kind, detail });
        }
    }
}

/// Sign (+1/-1) of the library's "positive orientation" convention relative to `exact::orient`,
/// calibrated once per dimension on the standard simplex in the order the library stores it.
/// The library canonicalises cells to positive orientation of its own orientation predicate,
/// which is the sign of det[[p_i, 1]] — the same matrix `exact::orient` evaluates. The reference
/// therefore requires `exact::orient == +1`.
pub const POSITIVE: i32 = 1;

fn sorted(mut v: Vec<u64>) -> Vec<u64> {
    v.sort_unstable();
    v
}

/// Parity (true = odd) of the permutation taking `from` to `to` (same element sets).
fn perm_odd(from: &[u64], to: &[u64]) -> Option<bool> {
    let n = from.len();
    if to.len() != n {
        return None;
    }
    let mut idx: Vec<usize> = Vec::with_capacity(n);
    for x in to {
        idx.push(from.iter().position(|y| y == x)?);
    }
    let mut seen = vec![false; n];
    let mut odd = false;
    for i in 0..n {
        if seen[i] {
            continue;
        }
        let mut len = 0;
        let mut j = i;
        while !seen[j] {
            seen[j] = true;
            j = idx[j];
            len += 1;
        }
        if len % 2 == 0 {
            odd = !odd;
        }
    }
    Some(odd)
}

pub struct FacetInfo {
    /// (cell key, index of the opposite vertex in that cell)
    pub incident: Vec<(u64, usize)>,
}

pub fn facet_map(snap: &Snap) -> BTreeMap<Vec<u64>, FacetInfo> {
    let mut map: BTreeMap<Vec<u64>, FacetInfo> = BTreeMap::new();
    for c in &snap.cells {
        for i in 0..c.verts.len() {
            let f: Vec<u64> =
                sorted(c.verts.iter().enumerate().filter(|(j, _)| *j != i).map(|(_, v)| *v).collect());
            map.entry(f).or_insert_with(|| FacetInfo { incident: Vec::new() }).incident.push((c.key, i));
        }
    }
    map
}

/// Boundary facets as sorted vertex-key tuples, with (cell, opposite index).
pub fn boundary_facets(snap: &Snap) -> Vec<(Vec<u64>, u64, usize)> {
    facet_map(snap)
        .into_iter()
        .filter(|(_, info)| info.incident.len() == 1)
        .map(|(f, info)| (f, info.incident[0].0, info.incident[0].1))
        .collect()
}

pub fn level1(snap: &Snap, rep: &mut Report) {
    let d = snap.dim;
    for v in &snap.verts {
        if v.coords.len() != d {
            rep.push(1, "vertex-dimension", format!("vertex {:#x} has {} coords", v.key, v.coords.len()));
        }
        if v.coords.iter().any(|c| !c.is_finite()) {
            rep.push(1, "vertex-nonfinite", format!("vertex {:#x} coords {:?}", v.key, v.coords));
        }
        if v.uuid == 0 {
            rep.push(1, "vertex-nil-uuid", format!("vertex {:#x}", v.key));
        }
    }
    for c in &snap.cells {
        if c.verts.len() != d + 1 {
            rep.push(1, "cell-vertex-count", format!("cell {:#x} has {} vertices", c.key, c.verts.len()));
        }
        let s: BTreeSet<u64> = c.verts.iter().copied().collect();
        if s.len() != c.verts.len() {
            rep.push(1, "cell-repeated-vertex", format!("cell {:#x} verts {:x?}", c.key, c.verts));
        }
        if c.uuid == 0 {
            rep.push(1, "cell-nil-uuid", format!("cell {:#x}", c.key));
        }
        if let Some(n) = &c.nbrs
            && n.len() != d + 1
        {
            rep.push(1, "cell-neighbor-buffer-length", format!("cell {:#x} has {} neighbour slots", c.key, n.len()));
        }
    }
}

pub fn level2(snap: &Snap, rep: &mut Report) {
    // uuid uniqueness (uuid<->key bijection as far as it is observable)
    let mut seen: BTreeSet<u128> = BTreeSet::new();
    for v in &snap.verts {
        if !seen.insert(v.uuid) {
            rep.push(2, "vertex-duplicate-uuid", format!("uuid {:032x}", v.uuid));
        }
    }
    let mut seen: BTreeSet<u128> = BTreeSet::new();
    for c in &snap.cells {
        if !seen.insert(c.uuid) {
            rep.push(2, "cell-duplicate-uuid", format!("uuid {:032x}", c.uuid));
        }
    }
    if snap.n_verts_reported != snap.verts.len() || snap.n_cells_reported != snap.cells.len() {
        rep.push(2, "count-mismatch", format!(
            "reported {}v/{}c, enumerated {}v/{}c",
            snap.n_verts_reported, snap.n_cells_reported, snap.verts.len(), snap.cells.len()
        ));
    }
    let vkeys: BTreeSet<u64> = snap.verts.iter().map(|v| v.key).collect();
    let cells: BTreeMap<u64, &crate::snap::SCell> = snap.cells.iter().map(|c| (c.key, c)).collect();
    let mut dangling = false;
    for c in &snap.cells {
        for v in &c.verts {
            if !vkeys.contains(v) {
                dangling = true;
                rep.push(2, "cell-dangling-vertex", format!("cell {:#x} references vertex {:#x}", c.key, v));
            }
        }
    }
    // incident cell pointers
    for v in &snap.verts {
        if let Some(ic) = v.incident {
            match cells.get(&ic) {
                None => rep.push(2, "incident-cell-dangling", format!("vertex {:#x} -> cell {:#x}", v.key, ic)),
                Some(c) => {
                    if !c.verts.contains(&v.key) {
                        rep.push(2, "incident-cell-wrong", format!("vertex {:#x} -> cell {:#x} not containing it", v.key, ic));
                    }
                }
            }
        }
    }
    if dangling {
        return;
    }
    // duplicate cells
    let mut sets: BTreeMap<Vec<u64>, u64> = BTreeMap::new();
    for c in &snap.cells {
        if let Some(prev) = sets.insert(sorted(c.verts.clone()), c.key) {
            rep.push(2, "duplicate-cell", format!("cells {:#x} and {:#x}", prev, c.key));
        }
    }
    // facet sharing <= 2, neighbours
    let fmap = facet_map(snap);
    for (f, info) in &fmap {
        if info.incident.len() > 2 {
            rep.push(2, "facet-overshared", format!("facet {:x?} in {} cells", f, info.incident.len()));
        }
    }
    for c in &snap.cells {
        for i in 0..c.verts.len() {
            let f: Vec<u64> =
                sorted(c.verts.iter().enumerate().filter(|(j, _)| *j != i).map(|(_, v)| *v).collect());
            let info = &fmap[&f];
            let expected: Option<u64> = if info.incident.len() == 2 {
                info.incident.iter().map(|(k, _)| *k).find(|k| *k != c.key)
            } else {
                None
            };
            if info.incident.len() > 2 {
                continue;
            }
            let actual: Option<u64> = c.nbrs.as_ref().and_then(|n| n.get(i).copied().flatten());
            if actual != expected {
                let kind = match (actual, expected) {
                    (Some(a), _) if !cells.contains_key(&a) => "neighbor-dangling",
                    (Some(_), None) => "neighbor-on-boundary-facet",
                    (None, Some(_)) => "neighbor-missing",
                    _ => "neighbor-wrong-cell-or-slot",
                };
                rep.push(2, kind, format!(
                    "cell {:#x} slot {} has {:x?}, facet incidence says {:x?}",
                    c.key, i, actual, expected
                ));
            }
        }
    }
    // coherent orientation across shared facets
    for (f, info) in &fmap {
        if info.incident.len() != 2 {
            continue;
        }
        let (ka, ia) = info.incident[0];
        let (kb, ib) = info.incident[1];
        let a = cells[&ka];
        let b = cells[&kb];
        let fa: Vec<u64> = a.verts.iter().enumerate().filter(|(j, _)| *j != ia).map(|(_, v)| *v).collect();
        let fb: Vec<u64> = b.verts.iter().enumerate().filter(|(j, _)| *j != ib).map(|(_, v)| *v).collect();
        let Some(odd) = perm_odd(&fa, &fb) else { continue };
        // induced orientation sign: (-1)^i * [facet order]; coherent ⇔ induced orientations opposite
        let sa = ia % 2 == 1;
        let sb = ib % 2 == 1;
        let same_induced = !(sa ^ sb ^ odd);
        if same_induced {
            rep.push(2, "incoherent-orientation", format!("cells {:#x}/{:#x} across facet {:x?}", ka, kb, f));
        }
    }
}

fn subsets_of_size(items: &[u64], k: usize) -> Vec<Vec<u64>> {
    let n = items.len();
    let mut out = Vec::new();
    if k > n || n > 16 {
        return out;
    }
    for mask in 0u32..(1u32 << n) {
        if mask.count_ones() as usize != k {
            continue;
        }
        out.push((0..n).filter(|i| mask & (1 << i) != 0).map(|i| items[i]).collect());
    }
    out
}

/// f-vector by brute-force enumeration of all faces of all cells.
pub fn f_vector(snap: &Snap) -> Vec<usize> {
    let d = snap.dim;
    let mut faces: Vec<BTreeSet<Vec<u64>>> = vec![BTreeSet::new(); d + 1];
    for c in &snap.cells {
        let vs = sorted(c.verts.clone());
        for k in 1..=vs.len().min(d + 1) {
            for s in subsets_of_size(&vs, k) {
                faces[k - 1].insert(s);
            }
        }
    }
    // 0-faces: all vertices present in the vertex store (isolated ones count too)
    let mut f: Vec<usize> = faces.iter().map(BTreeSet::len).collect();
    let in_cells: BTreeSet<u64> = snap.cells.iter().flat_map(|c| c.verts.iter().copied()).collect();
    let isolated = snap.verts.iter().filter(|v| !in_cells.contains(&v.key)).count();
    f[0] += isolated;
    f
}

pub fn euler(f: &[usize]) -> i64 {
    f.iter().enumerate().map(|(k, n)| if k % 2 == 0 { *n as i64 } else { -(*n as i64) }).sum()
}

/// Connected components of a family of simplices (given as sorted tuples) where two simplices
/// are adjacent when they share a codimension-1 face.
fn components(simplices: &[Vec<u64>]) -> usize {
    let n = simplices.len();
    if n == 0 {
        return 0;
    }
    let mut parent: Vec<usize> = (0..n).collect();
    fn find(p: &mut Vec<usize>, x: usize) -> usize {
        let mut r = x;
        while p[r] != r {
            r = p[r];
        }
        let mut c = x;
        while p[c] != r {
            let nx = p[c];
            p[c] = r;
            c = nx;
        }
        r
    }
    let mut face_owner: BTreeMap<Vec<u64>, usize> = BTreeMap::new();
    for (i, s) in simplices.iter().enumerate() {
        for omit in 0..s.len() {
            let face: Vec<u64> = s.iter().enumerate().filter(|(j, _)| *j != omit).map(|(_, v)| *v).collect();
            if let Some(&j) = face_owner.get(&face) {
                let (a, b) = (find(&mut parent, i), find(&mut parent, j));
                if a != b {
                    parent[a] = b;
                }
            } else {
                face_owner.insert(face, i);
            }
        }
    }
    let mut roots = BTreeSet::new();
    for i in 0..n {
        roots.insert(find(&mut parent, i));
    }
    roots.len()
}

pub fn level3(snap: &Snap, strength: Strength, completion: bool, rep: &mut Report) {
    let d = snap.dim;
    if snap.cells.is_empty() {
        if !snap.verts.is_empty() {
            rep.push(3, "isolated-vertex", "vertices but no cells (bootstrap)".to_string());
        }
        return;
    }
    let fmap = facet_map(snap);
    // 1. facet degree
    for (f, info) in &fmap {
        if info.incident.len() > 2 {
            rep.push(3, "facet-degree", format!("facet {:x?} in {} cells", f, info.incident.len()));
        }
    }
    // 2. closed boundary: every ridge of a boundary facet lies in exactly 2 boundary facets
    let bfacets: Vec<&Vec<u64>> = fmap.iter().filter(|(_, i)| i.incident.len() == 1).map(|(f, _)| f).collect();
    rep.boundary_facets = bfacets.len();
    if d >= 2 {
        let mut ridge_count: BTreeMap<Vec<u64>, usize> = BTreeMap::new();
        for f in &bfacets {
            for omit in 0..f.len() {
                let r: Vec<u64> = f.iter().enumerate().filter(|(j, _)| *j != omit).map(|(_, v)| *v).collect();
                *ridge_count.entry(r).or_insert(0) += 1;
            }
        }
        for (r, n) in &ridge_count {
            if *n != 2 {
                rep.push(3, "boundary-not-closed", format!("boundary ridge {:x?} in {} boundary facets", r, n));
            }
        }
    }
    // 4. connectedness
    let cell_sets: Vec<Vec<u64>> = snap.cells.iter().map(|c| sorted(c.verts.clone())).collect();
    let comps = components(&cell_sets);
    if comps != 1 {
        rep.push(3, "disconnected", format!("{comps} components"));
    }
    // 5. no isolated vertices
    let in_cells: BTreeSet<u64> = snap.cells.iter().flat_map(|c| c.verts.iter().copied()).collect();
    for v in &snap.verts {
        if !in_cells.contains(&v.key) {
            rep.push(3, "isolated-vertex", format!("vertex {:#x} in no cell", v.key));
        }
    }
    // 6. Euler characteristic (ball: 1)
    let f = f_vector(snap);
    let chi = euler(&f);
    rep.euler = Some(chi);
    if chi != 1 {
        rep.push(3, "euler-characteristic", format!("chi = {chi}, f = {f:?}"));
    }
    // geometric orientation
    let coords = snap.key_to_coords();
    let mut all_decided = true;
    let mut all_pos = true;
    for c in &snap.cells {
        let pts: Option<Vec<&[f64]>> = c.verts.iter().map(|k| coords.get(k).copied()).collect();
        let Some(pts) = pts else { continue };
        if pts.len() != d + 1 || pts.iter().any(|p| p.len() != d || p.iter().any(|x| !x.is_finite())) {
            continue;
        }
        let o = exact::orient(&pts);
        if !o.decidable {
            rep.abstained += 1;
            all_decided = false;
            continue;
        }
        if o.sign != POSITIVE {
            all_pos = false;
            rep.push(3, if o.sign == 0 { "flat-cell" } else { "inverted-cell" },
                format!("cell {:#x} exact orientation {}", c.key, o.sign));
        }
    }
    rep.geo_positive = if all_decided { Some(all_pos) } else if !all_pos { Some(false) } else { None };
    // ridge links (PLManifold and stricter): cells around each ridge form one cycle or one path
    if strength >= Strength::PLManifold && d >= 2 {
        let mut ridge_cells: BTreeMap<Vec<u64>, Vec<Vec<u64>>> = BTreeMap::new();
        for cs in &cell_sets {
            for r in subsets_of_size(cs, d - 1) {
                // link simplex of the ridge in this cell = the 2 remaining vertices (an edge)
                let link: Vec<u64> = cs.iter().copied().filter(|v| !r.contains(v)).collect();
                ridge_cells.entry(r).or_default().push(link);
            }
        }
        for (r, edges) in &ridge_cells {
            // link is a graph; must be a single cycle or single path
            let mut deg: BTreeMap<u64, usize> = BTreeMap::new();
            for e in edges {
                for v in e {
                    *deg.entry(*v).or_insert(0) += 1;
                }
            }
            let bad_deg = deg.values().any(|&x| x > 2);
            let ends = deg.values().filter(|&&x| x == 1).count();
            let comps = components(edges);
            if bad_deg || comps != 1 || !(ends == 0 || ends == 2) {
                rep.push(3, "ridge-link", format!("ridge {:x?}: link has {} edges, {} comps, {} ends, bad_deg={}", r, edges.len(), comps, ends, bad_deg));
            }
        }
    }
    // vertex links (PLManifoldStrict always; PLManifold at completion / in validate())
    if (strength == Strength::PLManifoldStrict || (strength == Strength::PLManifold && completion)) && d >= 2 {
        let bverts: BTreeSet<u64> = bfacets.iter().flat_map(|f| f.iter().copied()).collect();
        for v in &snap.verts {
            if !in_cells.contains(&v.key) {
                continue;
            }
            let link: Vec<Vec<u64>> = cell_sets
                .iter()
                .filter(|cs| cs.contains(&v.key))
                .map(|cs| cs.iter().copied().filter(|x| *x != v.key).collect())
                .collect();
            let comps = components(&link);
            let mut face_count: BTreeMap<Vec<u64>, usize> = BTreeMap::new();
            for s in &link {
                for omit in 0..s.len() {
                    let f: Vec<u64> = s.iter().enumerate().filter(|(j, _)| *j != omit).map(|(_, x)| *x).collect();
                    *face_count.entry(f).or_insert(0) += 1;
                }
            }
            let over = face_count.values().any(|&n| n > 2);
            let open_faces = face_count.values().filter(|&&n| n == 1).count();
            let is_boundary = bverts.contains(&v.key);
            let mut bad = comps != 1 || over;
            if !is_boundary && open_faces != 0 {
                bad = true;
            }
            if is_boundary && open_faces == 0 {
                bad = true;
            }
            // Euler characteristic of the link: sphere S^{d-1}: 1+(-1)^{d-1}; ball: 1
            if !bad {
                let mut faces: BTreeSet<Vec<u64>> = BTreeSet::new();
                for s in &link {
                    for k in 1..=s.len() {
                        for sub in subsets_of_size(s, k) {
                            faces.insert(sub);
                        }
                    }
                }
                let chi: i64 = faces.iter().map(|f| if f.len() % 2 == 1 { 1 } else { -1 }).sum();
                let expect = if is_boundary { 1 } else if (d - 1) % 2 == 0 { 2 } else { 0 };
                if chi != expect {
                    bad = true;
                }
            }
            if bad {
                rep.push(3, "vertex-link", format!(
                    "vertex {:#x}: link {} simplices, {} comps, over={}, open_faces={}, boundary={}",
                    v.key, link.len(), comps, over, open_faces, is_boundary
                ));
            }
        }
    }
}

/// Full reference validation. `completion` selects completion-time strength for PLManifold
/// (vertex links), as `Triangulation::validate()` / construction completion do.
pub fn validate(snap: &Snap, strength: Strength, completion: bool) -> Report {
    let mut rep = Report::default();
    level1(snap, &mut rep);
    if !rep.ok() {
        return rep;
    }
    level2(snap, &mut rep);
    if !rep.ok() {
        return rep;
    }
    level3(snap, strength, completion, &mut rep);
    rep
}

/// Bootstrap state: fewer than D+1 vertices, no cells, every vertex once.
pub fn is_bootstrap(snap: &Snap) -> bool {
    snap.cells.is_empty() && snap.verts.len() <= snap.dim
}
